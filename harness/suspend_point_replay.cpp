// suspend_point_replay.cpp -- replays behaviours of spec/SuspendPoint/SuspendPoint.tla on the real
// cocls::suspend_point<void> / cocls::suspend_point<int> and the real thread-local ready queue
// (cocls::coro_queue), comparing the projection of the real objects with the specification's state
// after every step.
//
// Every handle is a real, tiny coroutine which counts its resumptions and suspends again (so that a
// second resumption is observed through the counter, not through undefined behaviour).  The whole
// scenario is executed from inside a driver coroutine: resumed directly (mode "normal", no ready
// queue installed) or under coro_queue::install_queue_and_call (mode "coro").
//
// The driver's own handle (what `co_await cocls::self()` yields) has the id maxh+1; every suspension of
// the driver is followed by a counter increment, so each of its resumptions is counted (dres).
// coro_queue::create_suspend_point(fn) (fn clears / discards one object, then returns or throws) and
// cocls::parallel_resume() (resume.h; the detached thread it creates is waited for) are operations too.
// The payload of the typed suspend points is int or Tracked (identity + moved-from flag): the attached
// value is observed through a probe, never through the accessors under test.
//
// Control-flow contexts (last argument of Clear / Destroy / CreateSP / Finish; absent = "flow"): the operation
// is executed in ordinary flow; "unwind": on an automatic object of a scope that is left by an exception
// (the object is moved into a local of a scope which then throws; the exception is caught by the replayer);
// "dtor": by the destructor of a scope guard while an exception unwinds the guard's scope; "catch": inside
// a handler.  With alt = 1 a destruction in flow / dtor / catch is the temporary of a discarded return value.
//
// header: {"mode":"normal"|"coro", "maxh":N, "maxobj":M, "alt":0|1, "payload":"int"|"tracked"}
// projection: {"blocks","burst":[ids],"dalloc","done","dres","mode","nextH","queue":[ids],"resumed":[counts],
//              "ret","rmf","sp":[{"cap","h":[ids],"heap","live","mv","ty","val"}...]}
//
// Allocation accounting: suspend_point is the only code in the process that uses the *array* forms of
// operator new/delete, so these are replaced and counted separately from the scalar forms (which the
// harness itself, coroutine frames and the std::deque of the ready queue use).  REPLAY_COUNT_ALLOCS
// of replay_common.h counts both forms together and is therefore not used here.
#include <cocls/suspend_point.h>
#include <cocls/self.h>
#include <cocls/resume.h>
#include "replay_common.h"

#include <coroutine>

#include <dlfcn.h>
#include <pthread.h>
#include <unistd.h>

// process-wide: parallel_resume() frees the block in the thread it creates
namespace cnt {
static std::atomic<long> arr_new{0}, arr_del{0}, sc_new{0};
}

// Threads created by the library (resume.h: detached std::thread) while `track` is set are counted at
// their start and at the very end of their start routine (the closure is destroyed by then), so the
// replayer can wait for them deterministically - a detached thread cannot be joined.
namespace thr {
static std::atomic<bool> track{false};
static std::atomic<long> started{0}, finished{0};
struct pack { void *(*start)(void *); void *arg; };
static void *trampoline(void *p) {
    pack k = *static_cast<pack *>(p);
    free(p);
    void *r = k.start(k.arg);
    finished.fetch_add(1, std::memory_order_release);
    return r;
}
}
extern "C" int pthread_create(pthread_t *th, const pthread_attr_t *attr, void *(*start)(void *), void *arg) {
    static int (*real)(pthread_t *, const pthread_attr_t *, void *(*)(void *), void *) = nullptr;
    if (!real) real = reinterpret_cast<decltype(real)>(dlsym(RTLD_NEXT, "pthread_create"));
    if (!thr::track.load()) return real(th, attr, start, arg);
    auto *k = static_cast<thr::pack *>(malloc(sizeof(thr::pack)));
    k->start = start;
    k->arg = arg;
    thr::started.fetch_add(1);
    return real(th, attr, &thr::trampoline, k);
}
void *operator new[](std::size_t sz) {
    void *p = malloc(sz ? sz : 1);
    if (!p) throw std::bad_alloc();
    cnt::arr_new++;
    return p;
}
void operator delete[](void *p) noexcept {
    if (!p) return;
    cnt::arr_del++;
    free(p);
}
void operator delete[](void *p, std::size_t) noexcept { operator delete[](p); }
void *operator new(std::size_t sz) {
    void *p = malloc(sz ? sz : 1);
    if (!p) throw std::bad_alloc();
    cnt::sc_new++;
    return p;
}
void operator delete(void *p) noexcept { free(p); }
void operator delete(void *p, std::size_t) noexcept { operator delete(p); }

using namespace rp;
using SPV = cocls::suspend_point<void>;

// payload whose move differs from its copy: identity + "this object has been moved from"
struct Tracked {
    int id = 0;
    bool moved_from = false;
    static inline long copies = 0;
    Tracked(int i) : id(i) {}
    Tracked(const Tracked &o) : id(o.id), moved_from(o.moved_from) { copies++; }
    Tracked(Tracked &&o) noexcept : id(o.id), moved_from(o.moved_from) { o.moved_from = true; }
    Tracked &operator=(const Tracked &o) { id = o.id; moved_from = o.moved_from; copies++; return *this; }
    Tracked &operator=(Tracked &&o) noexcept {
        if (this != &o) { id = o.id; moved_from = o.moved_from; o.moved_from = true; }
        return *this;
    }
};
// the exception of the scripted scopes, a scope guard, and an operation run in a control-flow context
struct Unwind {};
template <typename F>
struct AtExit {
    F &f;
    ~AtExit() noexcept(false) { f(); }
};
template <typename Op>
static void in_ctx(const std::string &c, Op &&op) {
    if (c == "dtor") {
        try {
            AtExit<Op> guard{op};
            throw Unwind();             // op runs while this exception unwinds the scope of `guard`
        } catch (const Unwind &) {
        }
    } else if (c == "catch") {
        try {
            throw Unwind();
        } catch (const Unwind &) {
            op();                       // op runs while the exception is being handled
        }
    } else {
        op();
    }
}

static int idof(const int &v) { return v; }
static int idof(const Tracked &v) { return v.id; }
static bool mfof(const int &) { return false; }
static bool mfof(const Tracked &v) { return v.moved_from; }

// protected representation, read through pointers to members named via a derived class
struct Probe : SPV {
    static unsigned flag(const SPV &s) { return s.*(&Probe::_count_flag); }
    static bool heap(const SPV &s) { return (flag(s) & 1) != 0; }
    static std::size_t count(const SPV &s) { return flag(s) >> 1; }
    static std::size_t capacity(const SPV &s) { return heap(s) ? (s.*(&Probe::_ext))._capacity : 0; }
    static void *const *array(const SPV &s) { return heap(s) ? (s.*(&Probe::_ext))._handles : (s.*(&Probe::_local))._handles; }
};
template <typename X>
struct ProbeT : cocls::suspend_point<X> {
    static const X &value_of(const cocls::suspend_point<X> &s) { return s.*(&ProbeT::value); }
};

struct Dummy {
    struct promise_type {
        Dummy get_return_object() { return {std::coroutine_handle<promise_type>::from_promise(*this)}; }
        std::suspend_always initial_suspend() noexcept { return {}; }
        std::suspend_always final_suspend() noexcept { return {}; }
        void return_void() {}
        void unhandled_exception() { std::terminate(); }
    };
    std::coroutine_handle<promise_type> h;
};

template <typename X>
struct World {
    using SPT = cocls::suspend_point<X>;

    struct Slot {
        alignas(SPT) alignas(SPV) unsigned char buf[sizeof(SPT) > sizeof(SPV) ? sizeof(SPT) : sizeof(SPV)];
        bool live = false;
        bool typed = false;
        SPV &base() { return typed ? static_cast<SPV &>(*reinterpret_cast<SPT *>(buf)) : *reinterpret_cast<SPV *>(buf); }
        SPT &ti() { return *reinterpret_cast<SPT *>(buf); }
        SPV &tv() { return *reinterpret_cast<SPV *>(buf); }
    };

    int maxh = 0, maxobj = 0, alt = 0;
    std::vector<std::coroutine_handle<>> hs;      // 1..maxh
    std::map<void *, int> id_of;
    std::vector<int> resumed;
    std::vector<int> burst;
    std::vector<Slot> slots;
    void *driver_addr = nullptr;
    int nextH = 0;
    long ret = 0;
    bool rmf = false;
    long dalloc = 0;
    long dres = 0;                // resumptions of the driver itself during the current step
    long base_new = 0, base_del = 0;
    bool done = false;
    std::string trouble;          // replayer-side observation that is not part of the projection
    long finish_at = -1;
    bool failed = false;
    bool parked_end = false;

    static Dummy body(World *w, int id) {
        for (;;) {
            w->resumed[id]++;
            w->burst.push_back(id);
            co_await std::suspend_always{};
        }
    }

    void init(const Scenario &sc) {
        maxh = (int) sc.hdr.at("maxh").as_int(8);
        maxobj = (int) sc.hdr.at("maxobj").as_int(3);
        alt = (int) sc.hdr.at("alt").as_int(0);
        hs.assign(maxh + 1, std::coroutine_handle<>());
        resumed.assign(maxh + 1, 0);
        burst.reserve(4 * maxh + 64);
        slots.resize(maxobj + 1);
        for (int i = 1; i <= maxh; i++) {
            Dummy d = body(this, i);
            hs[i] = d.h;
            id_of[d.h.address()] = i;
        }
        base_new = cnt::arr_new;
        base_del = cnt::arr_del;
    }

    ~World() {
        for (int i = 1; i <= maxh; i++) if (hs[i]) hs[i].destroy();
    }

    int self_id() const { return maxh + 1; }

    int id(std::coroutine_handle<> c) const {
        if (!c) return -2;
        if (c.address() == driver_addr) return self_id();
        auto it = id_of.find(c.address());
        return it == id_of.end() ? -1 : it->second;
    }

    long blocks() const { return (cnt::arr_new - base_new) - (cnt::arr_del - base_del); }

    void begin_step() { burst.clear(); ret = 0; rmf = false; dalloc = 0; dres = 0; }

    // a call into the library: new[] executed inside is attributed to the step; outside coroutine
    // mode (nothing is pushed to the ready queue's deque) no other allocation may happen either
    template <typename Fn>
    void lib(Fn &&fn, bool may_allocate = false) {
        bool strict = !cocls::coro_queue::is_active() && !may_allocate;
        long a0 = cnt::arr_new, s0 = cnt::sc_new;
        fn();
        dalloc += cnt::arr_new - a0;
        if (strict && cnt::sc_new != s0 && trouble.empty()) trouble = "operator new called by the library outside coroutine mode";
    }

    template <typename Fn>
    void with(Slot &s, Fn &&fn) {
        if (s.typed) fn(s.ti());
        else fn(s.tv());
    }

    J project() {
        J m = J::map();
        m.set("blocks", blocks());
        m.set("burst", J::list(burst.begin(), burst.end()));
        m.set("dalloc", dalloc);
        m.set("done", done);
        m.set("dres", dres);
        m.set("mode", cocls::coro_queue::is_active() ? "coro" : "normal");
        m.set("nextH", nextH);
        J q = J::list();
        if (cocls::coro_queue::instance) {
            for (auto c : cocls::coro_queue::instance->_queue) q.push(id(c));
        } else if (!cocls::coro_queue::queue_impl::instance._queue.empty()) {
            q.push("stale");   // handles left in an uninstalled queue
        }
        m.set("queue", q);
        m.set("resumed", J::list(resumed.begin() + 1, resumed.end()));
        m.set("ret", ret);
        m.set("rmf", rmf);
        J l = J::list();
        for (int k = 1; k <= maxobj; k++) {
            Slot &s = slots[k];
            J o = J::map();
            J h = J::list();
            int v = 0;
            bool mv = false;
            if (s.live) {
                const SPV &b = s.base();
                std::size_t n = Probe::count(b);
                void *const *arr = Probe::array(b);
                for (std::size_t i = 0; i < n && i < 4096; i++) h.push(id(std::coroutine_handle<>::from_address(arr[i])));
                o.set("cap", Probe::capacity(b));
                o.set("heap", Probe::heap(b));
                if (s.typed) {
                    const X &val = ProbeT<X>::value_of(s.ti());     // the member itself, no accessor involved
                    v = idof(val);
                    mv = mfof(val);
                }
                // public observers must agree with the representation
                if (b.size() != n || b.empty() != (n == 0) || b.await_ready() != (n == 0)) o.set("size_mismatch", (long) b.size());
            } else {
                o.set("cap", 0);
                o.set("heap", false);
            }
            o.set("val", v);
            o.set("mv", mv);
            o.set("h", h);
            o.set("live", s.live);
            o.set("ty", s.live && s.typed);
            l.push(o);
        }
        m.set("sp", l);
        if (!trouble.empty()) m.set("trouble", trouble);
        return m;
    }

    std::coroutine_handle<> next_handle() { return hs[++nextH]; }

    // slot k := suspend point move-constructed from `src` (used for co_await self())
    void construct_from(Slot &s, bool t, int v, SPV &&src) {
        lib([&] { if (t) new (s.buf) SPT(std::move(src), X(v)); else new (s.buf) SPV(std::move(src)); });
        s.live = true;
        s.typed = t;
    }

    // returns false when the action is not known / not executable
    bool exec(const Step &st, std::string &err) {
        const std::string &a = st.name;
        if (a == "ConstructEmpty" || a == "ConstructH") {
            Slot &s = slots[st.iarg(0)];
            bool t = st.sarg(1) == "TRUE";
            if (s.live) { err = "slot in use"; return false; }
            int v = st.iarg(0);
            if (a == "ConstructEmpty") {
                lib([&] { if (t) new (s.buf) SPT(X(v)); else new (s.buf) SPV(); });
            } else {
                std::coroutine_handle<> h = next_handle();
                lib([&] { if (t) new (s.buf) SPT(h, X(v)); else new (s.buf) SPV(h); });
            }
            s.live = true;
            s.typed = t;
        } else if (a == "MoveConstruct") {
            Slot &d = slots[st.iarg(0)];
            Slot &s = slots[st.iarg(1)];
            const std::string &kind = st.sarg(2);
            if (d.live || !s.live) { err = "bad slots"; return false; }
            if (kind == "same") {
                lib([&] { if (s.typed) new (d.buf) SPT(std::move(s.ti())); else new (d.buf) SPV(std::move(s.tv())); });
                d.typed = s.typed;
            } else if (kind == "void") {
                lib([&] { new (d.buf) SPV(std::move(s.ti())); });
                d.typed = false;
            } else {
                int v = st.iarg(0);
                lib([&] { if (s.typed) new (d.buf) SPT(std::move(s.ti()), X(v)); else new (d.buf) SPT(std::move(s.tv()), X(v)); });
                d.typed = true;
            }
            d.live = true;
        } else if (a == "AddHandle" || a == "AddFill") {
            Slot &s = slots[st.iarg(0)];
            int n = a == "AddHandle" ? 1 : st.iarg(1);
            for (int i = 0; i < n; i++) {
                std::coroutine_handle<> h = next_handle();
                with(s, [&](auto &o) { lib([&] { o << std::move(h); }); });
            }
        } else if (a == "AddTo") {
            // operator<<(handle) until the object holds n handles
            Slot &s = slots[st.iarg(0)];
            std::size_t n = (std::size_t) st.iarg(1);
            while (s.base().size() < n && nextH < maxh) {
                std::coroutine_handle<> h = next_handle();
                with(s, [&](auto &o) { lib([&] { o << std::move(h); }); });
            }
        } else if (a == "MergeShl") {
            Slot &d = slots[st.iarg(0)];
            Slot &s = slots[st.iarg(1)];
            with(d, [&](auto &od) { with(s, [&](auto &os) { lib([&] { od << std::move(os); }); }); });
        } else if (a == "MoveAssign") {
            Slot &d = slots[st.iarg(0)];
            Slot &s = slots[st.iarg(1)];
            if (d.typed && !s.typed) { err = "typed = untyped does not compile"; return false; }
            if (d.typed) lib([&] { d.ti() = std::move(s.ti()); });
            else with(s, [&](auto &os) { lib([&] { d.tv() = std::move(os); }); });
        } else if (a == "Read") {
            Slot &s = slots[st.iarg(0)];
            if (!s.live || !s.typed) { err = "read of an untyped slot"; return false; }
            if (st.sarg(1) == "conv") {
                lib([&] { X r = s.ti(); ret = idof(r); rmf = mfof(r); });                     // operator X()
            } else {
                const SPT &c = s.ti();
                lib([&] { X r = c; ret = idof(r); rmf = mfof(r); });                          // operator const X() const
            }
        } else if (a == "ParResume") {
            // cocls::parallel_resume(std::move(sp)): the handles are resumed by a new detached thread
            Slot &s = slots[st.iarg(0)];
            if (!s.live) { err = "slot not live"; return false; }
            thr::track.store(true);
            lib([&] {
                if (s.typed) { X r = cocls::parallel_resume(std::move(s.ti())); ret = idof(r); rmf = mfof(r); }
                else cocls::parallel_resume(std::move(s.tv()));
            }, true);
            thr::track.store(false);
            for (long spin = 0; thr::finished.load(std::memory_order_acquire) != thr::started.load(); spin++) {
                if (spin > 100000) { if (trouble.empty()) trouble = "thread created by parallel_resume did not finish"; break; }
                usleep(spin < 200 ? 20 : 200);
            }
        } else if (a == "CreateSP") {
            // slot k := coro_queue::create_suspend_point(fn); fn clears / discards object j, then returns or throws
            Slot &s = slots[st.iarg(0)];
            int j = st.iarg(1);
            bool thrw = st.sarg(2) == "TRUE", t = st.sarg(3) == "TRUE";
            const std::string &c = st.sarg(4);
            int v = st.iarg(0);
            if (s.live || (j && !slots[j].live)) { err = "bad slots"; return false; }
            if (!j && !c.empty() && c != "flow") { err = "context without an object"; return false; }
            struct FnThrew {};
            auto body = [&] {
                if (!j) {
                    if (thrw) throw FnThrew();
                    return;
                }
                with(slots[j], [&](auto &o) {
                    auto give_up = [&] { if (alt) { SPV discarded(std::move(o)); } else o.clear(); };
                    if (c == "unwind") {
                        SPV held(std::move(o));         // destroyed by the unwinding of fn
                        throw FnThrew();
                    } else if (c == "dtor") {
                        AtExit<decltype(give_up)> guard{give_up};
                        throw FnThrew();
                    } else if (c == "catch") {
                        try {
                            throw Unwind();
                        } catch (const Unwind &) {
                            give_up();
                            if (thrw) throw FnThrew();
                        }
                    } else {
                        give_up();
                        if (thrw) throw FnThrew();
                    }
                });
            };
            try {
                lib([&] {
                    if (t) new (s.buf) SPT(cocls::coro_queue::create_suspend_point([&] { body(); return X(v); }));
                    else new (s.buf) SPV(cocls::coro_queue::create_suspend_point([&] { body(); }));
                }, true);
                s.live = true;
                s.typed = t;
            } catch (const FnThrew &) {
                ret = maxh + 2;      // the exception reached the caller
            }
        } else if (a == "Pop") {
            Slot &s = slots[st.iarg(0)];
            std::coroutine_handle<> c;
            with(s, [&](auto &o) { lib([&] { c = o.pop(); }); });
            if (c.address() == std::noop_coroutine().address()) ret = 0;
            else ret = id(c);
            // the caller's duty (symmetric transfer in real use); its own handle it just drops
            if (ret > 0 && ret != self_id()) c.resume();
        } else if (a == "Clear") {
            Slot &s = slots[st.iarg(0)];
            with(s, [&](auto &o) { lib([&] { in_ctx(st.sarg(1), [&] { if (alt) o.suspend_now(); else o.clear(); }); }); });
        } else if (a == "Destroy") {
            Slot &s = slots[st.iarg(0)];
            if (!s.live) { err = "slot not live"; return false; }
            const std::string &c = st.sarg(1);
            if (c == "unwind") lib([&] { try { unwind_scope(st.iarg(0), st.iarg(0)); } catch (const Unwind &) {} });
            else if (alt) in_ctx(c, [&] { discard(s); });
            else in_ctx(c, [&] { destroy(s); });
        } else {
            err = "unknown action";
            return false;
        }
        return true;
    }

    void destroy_raw(Slot &s) {
        if (s.typed) s.ti().~SPT(); else s.tv().~SPV();
        s.live = false;
        s.typed = false;
    }

    void destroy(Slot &s) {
        if (!s.live) return;
        lib([&] { destroy_raw(s); });
    }

    // the object leaves its slot as the return value of a function; the temporary is discarded
    void discard(Slot &s) {
        if (!s.live) return;
        lib([&] {
            if (s.typed) [&]() -> SPT { return SPT(std::move(s.ti())); }();
            else [&]() -> SPV { return SPV(std::move(s.tv())); }();
        });
        destroy(s);     // what stays behind is empty
    }

    // the objects of the slots hi, hi-1, .., lo become automatic objects of nested scopes (the one of the
    // lowest slot is the innermost: it is destroyed first), then an exception leaves all of them.
    // To be called under lib().
    void unwind_scope(int hi, int lo) {
        if (hi < lo) throw Unwind();
        Slot &s = slots[hi];
        if (!s.live) {
            unwind_scope(hi - 1, lo);
        } else if (s.typed) {
            SPT local(std::move(s.ti()));
            destroy_raw(s);
            unwind_scope(hi - 1, lo);
        } else {
            SPV local(std::move(s.tv()));
            destroy_raw(s);
            unwind_scope(hi - 1, lo);
        }
    }
};

struct Driver {
    struct promise_type {
        Driver get_return_object() { return {std::coroutine_handle<promise_type>::from_promise(*this)}; }
        std::suspend_always initial_suspend() noexcept { return {}; }
        std::suspend_always final_suspend() noexcept { return {}; }
        void return_void() {}
        void unhandled_exception() { std::terminate(); }
    };
    std::coroutine_handle<promise_type> h;
};

// Every suspension of the driver is followed by `w.dres++`, and the driver never reaches its final
// suspend point: each resumption - also one that nobody was entitled to - is counted and harmless.
template <typename X>
static Driver drive(World<X> &w, const Scenario &sc, Reporter &rep) {
    using SPT = typename World<X>::SPT;
    for (std::size_t k = 0; k < sc.steps.size() && !w.failed; k++) {
        const Step &st = sc.steps[k];
        w.begin_step();
        if (st.name == "Finish") {
            w.finish_at = (long) k;
            break;
        } else if (st.name == "CoAwait") {
            auto &s = w.slots[st.iarg(0)];
            if (!s.live) { rep.error(k, "slot not live"); w.failed = true; break; }
            long a0 = cnt::arr_new;
            bool susp;
            if (s.typed) {
                SPT &o = s.ti();
                susp = !o.await_ready();
                X &v = co_await o;            // await_resume of a typed suspend point returns the value
                w.ret = idof(v);
                w.rmf = mfof(v);
            } else {
                SPV &o = s.tv();
                susp = !o.await_ready();
                co_await o;
                w.ret = 0;
            }
            if (susp) w.dres++;
            w.dalloc += cnt::arr_new - a0;
        } else if (st.name == "ConstructSelf" || st.name == "AddSelf") {
            long a0 = cnt::arr_new;
            SPV me = co_await cocls::self();          // the documented way to get the own handle (self.h)
            w.dalloc += cnt::arr_new - a0;
            auto &s = w.slots[st.iarg(0)];
            if (st.name == "ConstructSelf") {
                if (s.live) { rep.error(k, "slot in use"); w.failed = true; break; }
                w.construct_from(s, st.sarg(1) == "TRUE", st.iarg(0), std::move(me));
            } else {
                if (!s.live) { rep.error(k, "slot not live"); w.failed = true; break; }
                w.with(s, [&](auto &o) { w.lib([&] { o << std::move(me); }); });
            }
        } else if (st.name == "Pause") {
            if (!cocls::coro_queue::is_active()) { rep.error(k, "pause outside coroutine mode"); w.failed = true; break; }
            co_await cocls::pause();
            w.dres++;
        } else if (st.name == "Yield") {
            co_await std::suspend_always{};   // resumed through the own handle waiting in the ready queue
            w.dres++;
        } else {
            std::string err;
            if (!w.exec(st, err)) { rep.error(k, err); w.failed = true; break; }
        }
        if (!rep.check(k, w.project())) { w.failed = true; fflush(stdout); }
    }
    if (w.failed) {
        // the library has gone wrong: abandon the objects (their arrays may hold garbage) and stay
        // harmlessly resumable
        for (;;) co_await std::suspend_always{};
    }
    // the end of the history (Finish, or a truncated path): suspend for good; what is still alive
    // is destroyed from outside, which may resume the driver once more through its own handle
    w.parked_end = true;
    for (;;) {
        co_await std::suspend_always{};
        w.dres++;
    }
}

template <typename X>
static void run(const Scenario &sc, Reporter &rep) {
    World<X> w;
    w.init(sc);
    Driver d = drive<X>(w, sc, rep);
    w.driver_addr = d.h.address();
    std::size_t last = sc.steps.empty() ? 0 : sc.steps.size() - 1;
    bool coro = sc.hdr.at("mode").as_str("normal") == "coro";
    if (coro) {
        cocls::coro_queue::install_queue_and_call([&] { d.h.resume(); });
    } else {
        d.h.resume();
    }
    if (!w.failed) {
        if (!w.parked_end) {
            rep.diverge(last, "the awaiting (driver) coroutine was never resumed again");
            w.failed = true;
        } else {
            // the driver is suspended; the ready queue has been flushed.  Scope exit of the objects.
            // in context c (argument of Finish); an exception thrown in the scope also leaves the frame that
            // installed the queue
            const std::string c = w.finish_at >= 0 ? sc.steps[(std::size_t) w.finish_at].sarg(0) : std::string();
            auto destroy_all = [&] { for (int k = 1; k <= w.maxobj; k++) w.destroy(w.slots[k]); };
            auto scope_exit = [&] {
                if (c == "unwind") w.lib([&] { w.unwind_scope(w.maxobj, 1); });
                else if (c == "dtor") { AtExit<decltype(destroy_all)> owner{destroy_all}; throw Unwind(); }
                else if (c == "catch") in_ctx(c, destroy_all);
                else destroy_all();
            };
            try {
                if (coro) cocls::coro_queue::install_queue_and_call(scope_exit);
                else scope_exit();
            } catch (const Unwind &) {
            }
            w.done = true;
            if (w.finish_at >= 0) {
                if (!rep.check((std::size_t) w.finish_at, w.project())) w.failed = true;
            }
        }
    }
    if (!w.failed) {
        // end-to-end statement of the property, independent of the specification
        std::string why;
        for (int i = 1; i <= w.maxh && why.empty(); i++) {
            int want = i <= w.nextH ? 1 : 0;
            if (w.resumed[i] != want) why = "handle " + std::to_string(i) + " resumed " + std::to_string(w.resumed[i]) + " times";
        }
        if (why.empty() && w.blocks() != 0) why = "leaked new[] blocks: " + std::to_string(w.blocks());
        if (why.empty() && cocls::coro_queue::is_active()) why = "ready queue still installed";
        if (why.empty() && !cocls::coro_queue::queue_impl::instance._queue.empty()) why = "ready queue not drained";
        if (why.empty() && !w.trouble.empty()) why = w.trouble;
        if (!why.empty()) rep.diverge(last, why);
    }
    // make the process state clean for the next scenario even after a failure
    cocls::coro_queue::queue_impl::instance._queue.clear();
    cocls::coro_queue::instance = nullptr;
    d.h.destroy();
}

int main() {
    std::ios::sync_with_stdio(false);     // the scripts are large; stdin is only read through std::cin, stdout only written through stdio
    (void) cocls::coro_queue::queue_impl::instance._queue.size();   // construct the thread-local deque now
    return replay_main(std::cin, [](const Scenario &sc, Reporter &rep) {
        if (sc.hdr.at("payload").as_str("int") == "tracked") run<Tracked>(sc, rep);
        else run<int>(sc, rep);
    });
}
