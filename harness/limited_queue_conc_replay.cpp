// limited_queue_conc_replay.cpp -- replays the multi-thread configuration of
// spec/LimitedQueue/LimitedQueue.tla (critical-section grain, producer and consumer threads) on the real
// cocls::limited_queue<int> with real client threads under the controlled scheduler.  The queue's
// std::mutex is virtual (cocls_verif/pthread_shim.h, vsched lock grain): "enter the critical section"
// and "the code after the unlock" (hand-over, completion of the admitted push, unblock resolutions)
// are separately scheduled, exactly like the specification's XxxCS / XxxResolve actions.
//
// header: {"threads":["p1","p2","c1","c2"], "limit":n}
// A client thread loops: park at mark("cmd"); execute the command the controller stored for it.
//   XxxCS(t)      : the controller stores the command, moves t from the mark to its lock operation
//                   (silent; anything else there is a divergence), then performs one step = the critical
//                   section up to the park right after the unlock.
//   XxxResolve(t) / PopCompletePush(t): the step from the post-unlock park to the next mark.
//   When the specification says the thread is idle after its critical section, the controller runs the
//   post-unlock code at once and reports a divergence if that changed the queue's state or if the thread
//   does not arrive at its mark (e.g. it parks at a second lock operation the specification does not have).
// Futures are constructed in place in storage registered beforehand (guaranteed elision), so they are
// observable while their thread is still inside the call.  A push future that is only materialised by the
// return statement (hand-over / room) is reported "unborn" until then.
// projection: {"blocked","destroyed","fut","items","limit","npop","npush","pend":{t: idle|resolve|...},
//              "pfut","ret":{t:...},"waiters"}
#include <cocls/queue.h>
#include <cocls/future.h>
#include <cocls_verif/pthread_shim.h>
#include "replay_common.h"

#include <deque>

using namespace rp;
using cocls_verif::vsched;
using cocls_verif::op_t;

struct TestExc : std::exception {};

struct Probe : cocls::limited_queue<int> {
    using Base = cocls::limited_queue<int>;
    using Base::Base;
    using Base::_queue;
    using Base::_awaiters;
    using Base::_blocked;
    using Base::unblock_pop;
};

template <typename F>
struct Slot {
    alignas(F) unsigned char mem[sizeof(F)] = {};
    bool live = false;       // the call that constructs the future has started
    bool returned = false;   // ... and has returned (the object is complete)
    bool imm = false;        // ready at the moment the call returned
    F *get() { return reinterpret_cast<F *>(mem); }
};

struct World {
    std::unique_ptr<Probe> q;
    std::deque<std::unique_ptr<Slot<cocls::future<int>>>> futs;     // pop futures by pop id - 1
    std::deque<std::unique_ptr<Slot<cocls::future<void>>>> pfuts;   // push futures by push id - 1
    std::map<const void *, int> id_of, pid_of;
    std::vector<std::string> threads;
    std::map<std::string, int> tid;
    std::map<std::string, std::string> cmd, ret;
    std::map<std::string, bool> resolving;   // the thread's last critical section took a parked promise out (to resolve it outside)
    std::map<std::string, int> arg;
    int npush = 0, npop = 0, limit = 1;
    bool stop = false;
    vsched sched;
};

static void client(World &w, const std::string &me) {
    for (;;) {
        vsched::mark("cmd");
        if (w.stop) return;
        const std::string c = w.cmd[me];
        if (c == "push") {
            int id = w.arg[me];
            auto *s = w.pfuts[id - 1].get();
            s->live = true;
            new (s->mem) cocls::future<void>(w.q->push(id));
            s->imm = s->get()->ready();
            s->returned = true;
        } else if (c == "pop") {
            int id = w.arg[me];
            auto *s = w.futs[id - 1].get();
            s->live = true;
            new (s->mem) cocls::future<int>(w.q->pop());
            s->returned = true;
        } else if (c == "unblock_push") {
            bool r = w.q->unblock_push(std::make_exception_ptr(TestExc()));
            w.ret[me] = r ? "true" : "false";
        } else if (c == "unblock_pop") {
            bool r = w.q->unblock_pop(std::make_exception_ptr(TestExc()));
            w.ret[me] = r ? "true" : "false";
        }
        w.cmd[me] = "";
    }
}

static J fut_state(World &w, std::size_t i) {
    J m = J::map();
    std::string st = "pending";
    int v = 0;
    cocls::future<int> *f = w.futs[i]->live ? w.futs[i]->get() : nullptr;
    if (f && f->ready()) {
        try { v = f->value(); st = "val"; }
        catch (const cocls::await_canceled_exception &) { st = "canceled"; }
        catch (const TestExc &) { st = "exc"; }
        catch (...) { st = "other"; }
    }
    m.set("st", st);
    m.set("v", v);
    return m;
}

static bool parked_in_blocked(World &w, const void *id) {
    if (!w.q) return false;
    bool found = false;
    std::size_t n = w.q->_blocked.size();
    for (std::size_t i = 0; i < n; i++) {
        auto e = std::move(w.q->_blocked.front());
        w.q->_blocked.pop();
        if (e.second.get_id() == id) found = true;
        w.q->_blocked.push(std::move(e));
    }
    return found;
}

static std::string pfut_state(World &w, std::size_t i) {
    auto &s = *w.pfuts[i];
    if (!s.returned) {
        // the thread is still inside push(): either its promise is parked (the future exists and is pending) or
        // the future will only be created by the return statement
        if (s.live && parked_in_blocked(w, s.mem)) return "pending";
        if (s.live && s.get()->ready()) return "early";     // complete before push() returned: never legal
        return "unborn";
    }
    cocls::future<void> *f = s.get();
    if (!f->ready()) return s.imm ? "unready-again" : "pending";
    try { f->value(); return s.imm ? "ready" : "done"; }
    catch (const cocls::await_canceled_exception &) { return "canceled"; }
    catch (const TestExc &) { return "exc"; }
    catch (...) { return "other"; }
}

static std::string pend_of(World &w, const std::string &t) {
    int id = w.tid[t];
    if (w.sched.done(id)) return "done";
    const auto &e = w.sched.pending(id);
    if (e.op == op_t::mark) return "idle";
    if (e.op == op_t::unlock) return "after_unlock";
    if (e.op == op_t::lock) return "at_lock";
    return std::string("?") + cocls_verif::op_name(e.op);
}

// the queue's own state + every future (shared by the projection and the before/after comparison)
static J core(World &w, int skip_push = 0) {
    J m = J::map();
    J items = J::list(), waiters = J::list(), blocked = J::list(), fl = J::list(), pl = J::list();
    if (w.q) {
        auto copy = w.q->_queue;
        while (!copy.empty()) { items.push(copy.front()); copy.pop(); }
        std::size_t n = w.q->_awaiters.size();
        for (std::size_t i = 0; i < n; i++) {
            cocls::promise<int> p = std::move(w.q->_awaiters.front());
            w.q->_awaiters.pop();
            auto it = w.id_of.find(p.get_id());
            waiters.push(it == w.id_of.end() ? -1 : it->second);
            w.q->_awaiters.push(std::move(p));
        }
        n = w.q->_blocked.size();
        for (std::size_t i = 0; i < n; i++) {
            auto e = std::move(w.q->_blocked.front());
            w.q->_blocked.pop();
            J b = J::map();
            b.set("v", e.first);
            auto it = w.pid_of.find(e.second.get_id());
            b.set("push", it == w.pid_of.end() ? -1 : it->second);
            blocked.push(b);
            w.q->_blocked.push(std::move(e));
        }
    }
    for (std::size_t i = 0; i < w.futs.size(); i++) fl.push(fut_state(w, i));
    for (std::size_t i = 0; i < w.pfuts.size(); i++) pl.push((int) i + 1 == skip_push ? J("-") : J(pfut_state(w, i)));
    m.set("items", items);
    m.set("waiters", waiters);
    m.set("blocked", blocked);
    m.set("fut", fl);
    m.set("pfut", pl);
    return m;
}

int main() {
    return replay_main(std::cin, [](const Scenario &sc, Reporter &rep) {
        World *pw = new World();
        World &w = *pw;
        for (auto &x : sc.hdr.at("threads").l) w.threads.push_back(x.s);
        w.limit = (int) sc.hdr.at("limit").as_int(1);
        w.q.reset(new Probe((std::size_t) w.limit));
        w.sched.lock_grain = true;
        w.sched.install();
        for (auto &t : w.threads) {
            w.ret[t] = "none";
            std::string name = t;
            w.tid[t] = w.sched.spawn([pw, name] { client(*pw, name); });
        }
        auto proj = [&]() {
            J m = core(w);
            m.set("destroyed", w.q == nullptr);
            m.set("limit", w.limit);
            m.set("npush", w.npush);
            m.set("npop", w.npop);
            J r = J::map(), pend = J::map();
            for (auto &t : w.threads) {
                r.set(t, w.ret[t]);
                std::string p = pend_of(w, t);
                // parked after the unlock: "resolve" when a promise taken out of the queue is still to be resolved
                // (hand-over / admitted push / unblock), otherwise nothing observable is left to do: idle
                pend.set(t, p == "after_unlock" ? (w.resolving[t] ? "resolve" : "idle") : p);
            }
            m.set("ret", r);
            m.set("pend", pend);
            return m;
        };
        bool bad = false;
        for (std::size_t k = 0; k < sc.steps.size() && !bad; k++) {
            const Step &st = sc.steps[k];
            if (st.name == "Destroy") {
                // every thread is idle (spec precondition): destroy on the controller thread
                for (auto &t : w.threads) {
                    if (pend_of(w, t) != "idle") { rep.diverge(k, "thread " + t + " is not idle at Destroy: " + pend_of(w, t)); bad = true; break; }
                    w.ret[t] = "none";
                }
                if (bad) break;
                w.q.reset();
                if (!rep.check(k, proj())) bad = true;
                continue;
            }
            const std::string &t = st.sarg(0);
            if (!w.tid.count(t)) { rep.error(k, "unknown thread"); bad = true; break; }
            int id = w.tid[t];
            const bool cs = st.name == "PushCS" || st.name == "PopCS" || st.name == "UnblockPushCS" || st.name == "UnblockPopCS";
            if (cs) {
                if (pend_of(w, t) != "idle") { rep.diverge(k, "thread " + t + " is not idle in the implementation: " + pend_of(w, t)); bad = true; break; }
                w.ret[t] = "none";
                if (st.name == "PushCS") {
                    w.cmd[t] = "push"; w.arg[t] = ++w.npush;
                    w.pfuts.emplace_back(new Slot<cocls::future<void>>());
                    w.pid_of[w.pfuts.back()->mem] = w.npush;
                } else if (st.name == "PopCS") {
                    w.cmd[t] = "pop"; w.arg[t] = ++w.npop;
                    w.futs.emplace_back(new Slot<cocls::future<int>>());
                    w.id_of[w.futs.back()->mem] = w.npop;
                } else if (st.name == "UnblockPushCS") w.cmd[t] = "unblock_push";
                else w.cmd[t] = "unblock_pop";
                w.sched.step(id);                       // from the mark to the lock operation (silent)
                if (pend_of(w, t) != "at_lock") { rep.diverge(k, "thread " + t + " did not reach the queue lock: " + pend_of(w, t)); bad = true; break; }
                std::size_t aw = w.q->_awaiters.size(), bl = w.q->_blocked.size();
                w.sched.step(id);                       // the critical section
                if (st.name == "PushCS" || st.name == "UnblockPopCS") w.resolving[t] = w.q->_awaiters.size() < aw;
                else w.resolving[t] = w.q->_blocked.size() < bl;
            } else if (st.name == "PushResolve" || st.name == "PopCompletePush" || st.name == "UnblockPushResolve" || st.name == "UnblockPopResolve") {
                if (pend_of(w, t) != "after_unlock") { rep.diverge(k, "thread " + t + " is not between unlock and resolution: " + pend_of(w, t)); bad = true; break; }
                w.sched.step(id);                       // resolution outside the lock, up to the next mark
                w.resolving[t] = false;
            } else { rep.error(k, "unknown action"); bad = true; break; }
            // The specification says the call is complete when its critical section ends (thread idle): whatever the
            // implementation still does between the unlock and the return must not change the queue's state --
            // otherwise that work is exposed to other threads (a guarded access moved outside the lock, a second
            // critical section).
            {
                JV exp = JReader(st.expected).parse();
                std::string want = exp.at("pend").at(t).as_str();
                if (cs && want == "idle" && pend_of(w, t) == "after_unlock" && !w.resolving[t]) {
                    // the caller's own push future is materialised by the return statement on the room path
                    // ("unborn" -> "ready"): that is the return itself, not a change of the queue
                    int own = st.name == "PushCS" ? w.arg[t] : 0;
                    std::string before = core(w, own).dump();
                    w.sched.step(id);
                    std::string after = core(w, own).dump();
                    if (before != after) {
                        rep.diverge(k, "queue state changed between the unlock and the return of the call (outside the critical section): before=" + before + " after=" + after);
                        bad = true;
                        break;
                    }
                }
            }
            if (!rep.check(k, proj())) bad = true;
        }
        w.stop = true;
        bool drained = w.sched.drain();
        if (!drained && !bad) rep.diverge(sc.steps.empty() ? 0 : sc.steps.size() - 1, "deadlock at the end of the schedule");
        w.sched.uninstall();
        if (!drained) { fflush(stdout); _exit(1); }
        w.sched.join_all();
        w.q.reset();
        for (auto &s : w.futs) if (s->live && s->get()->ready()) s->get()->~future();
        for (auto &s : w.pfuts) if (s->returned && s->get()->ready()) s->get()->~future();
        delete pw;
    });
}
