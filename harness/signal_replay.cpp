// signal_replay.cpp -- replays behaviours of spec/Signal/Signal.tla (sequential histories) on the
// real cocls::signal<int> / signal<Pay> / signal<void>: scripted listener coroutines on emitter OBJECTS (constructed,
// assigned, re-bound to another signal), connect() callbacks, the call forms of the collector, held / discarded /
// awaited suspend points, several signal objects, signal/collector objects copied, moved and used after the move,
// on a normal thread ("coro":false) or inside a coroutine with an active coro_queue ("coro":true).
// After every step the real objects are projected to the abstract state and compared.
//
// header: {"void":bool,"pay":bool (value type Pay: a class with several constructors, instead of int),"nsig":number of signal objects,
//          "coro":bool,"pick":int,"kinds":{"l1":"loop","g2":"gated","t3":"cbt","o4":"cbonce","f5":"cbf"},
//          "hooked":"l1"|"" -- that listener awaits signal<T>::hook_up(fn); there is no signal before its first co_await
//                              (action HookUp(l,mode,n): fn emits n values through the collector, then stores / drops it),
//          "late":bool      -- a listener's emitter is obtained at its first co_await (after collectors/copies exist)
//                              instead of before any other handle was derived from the signal}
// call forms of Emit(s,form): "inplace" (one argument of another type: the constructing overload), "inplace2" (two
//   constructor arguments, Pay only), "default" (no argument on a non-void signal: T{}), "rvalue", "lvalue", "void"
// projection (refs, chain, cur, stor, cvar: one entry per signal "1","2",..):
//   {"refs":use_count of the shared state,"chain":[listeners from the top],"cur":"null|storage|caller",
//    "stor":{"has","v"},"cvar":int,"held":bool,"sp":[..],"queue":[..],"st":{l:state},"received":{l:[..]},
//    "bind":{l:signal designated by the weak reference of the listener's emitter object, 0 = empty},
//    "nemit":n,"heap":net allocations made inside library calls (= live connect() objects),
//    "cblive":{c:live instances of the callback functor}}
#define REPLAY_COUNT_ALLOCS
#include <cocls/signal.h>
#include <cocls/async.h>
#include <cocls/future.h>
#include "replay_common.h"

#include <optional>

using namespace rp;

static constexpr int CANCEL = -1;
static constexpr int POISON = -9;
static constexpr int TEMP_DEAD = -7;   // content of the rvalue argument after the call returned

// ---- allocation accounting: only what happens inside library calls -------------------------------
static long lib_net = 0;
struct lib_scope {
    long n0, d0;
    lib_scope() : n0(alloc_stats::news), d0(alloc_stats::deletes) {}
    ~lib_scope() { lib_net += (alloc_stats::news - n0) - (alloc_stats::deletes - d0); }
};

// ---- a value type with several constructors ------------------------------------------------------
struct Pay {
    static inline long live = 0;
    int v;
    Pay() : v(0) { live++; }                                    // T{}: what the argument-less call passes
    Pay(int hi, int lo) : v(hi * 10 + lo) { live++; }           // two constructor arguments
    explicit Pay(short x) : v(x) { live++; }                    // one argument of another type
    Pay(const Pay &o) : v(o.v) { live++; }
    Pay(Pay &&o) noexcept : v(o.v) { o.v = TEMP_DEAD; live++; }
    Pay &operator=(const Pay &o) = default;
    ~Pay() { v = POISON; live--; }
};
static int val_of(const int &x) { return x; }
static int val_of(const Pay &x) { return x.v; }
static void set_val(int &x, int v) { x = v; }
static void set_val(Pay &x, int v) { x.v = v; }

struct SPProbe : cocls::suspend_point<void> {
    static std::vector<void *> handles(const cocls::suspend_point<void> &s) {
        auto b = &SPProbe::begin;
        auto e = &SPProbe::end;
        std::vector<void *> out;
        for (auto p = (s.*b)(); p != (s.*e)(); ++p) out.push_back(*p);
        return out;
    }
};

struct Seen {
    int v[24];
    int n = 0;
    void push(int x) { if (n < 24) v[n] = x; n++; }
    J json() const { J l = J::list(); for (int i = 0; i < n && i < 24; i++) l.push(v[i]); return l; }
};

// ---- coroutine listeners ------------------------------------------------------------------------
enum class Phase { fresh, gate, awaiting, done };

template <typename T> struct World;

// registration function handed to signal<T>::hook_up(): called with the collector of the freshly created signal
template <typename T>
struct Reg {
    World<T> *w;
    int n;          // values emitted through the collector before returning
    bool store;     // keep the collector (else let it go)
    void operator()(typename cocls::signal<T>::collector c);
};

// the object returned by hook_up(), wrapped only to read what it keeps protected (chain node address, weak state)
template <typename T>
struct HProbe : cocls::signal<T>::template hook_up_emitter<Reg<T>> {
    using base_t = typename cocls::signal<T>::template hook_up_emitter<Reg<T>>;
    HProbe(base_t &&b) : base_t(std::move(b)) {}
    const cocls::awaiter *node() const { return static_cast<const cocls::awaiter *>(this); }
    auto weak_state() const { return this->_wk_state; }
};

// reads the weak reference an emitter object keeps protected
template <typename T>
struct EmProbe : cocls::signal<T>::emitter {
    static const auto &weak_state(const typename cocls::signal<T>::emitter &e) { return e.*(&EmProbe::_wk_state); }
};

template <typename T>
struct LState {
    std::string name;
    bool loop = false;
    bool hooked = false;
    std::optional<HProbe<T>> hk;        // hooked listener: what it co_awaits
    // the ONE emitter object the listener awaits again and again; re-constructed in place / assigned by Rebind
    std::optional<typename cocls::signal<T>::emitter> em;
    int bind = 1;                       // what the history bound it to (used to pick sources only)
    std::coroutine_handle<> h{};        // the frame (parked at a gate or on the emitter)
    std::coroutine_handle<> gate_h{};   // set while parked at a gate
    Phase phase = Phase::fresh;
    Seen seen;
};

template <typename T>
struct Gate {
    LState<T> &L;
    bool await_ready() const noexcept { return false; }
    void await_suspend(std::coroutine_handle<> h) noexcept { L.gate_h = h; }
    void await_resume() const noexcept {}
};

// No allocation happens in the body (it runs nested inside library calls whose allocations are counted).
template <typename T>
cocls::async<void> listener_body(LState<T> &L) {
    for (;;) {
        L.phase = Phase::awaiting;
        bool canceled = false;
        try {
            // (the operand must be a named lvalue: g++ 12 awaits a COPY of `*L.hk`)
            if constexpr (std::is_void_v<T>) {
                if (L.hooked) { HProbe<T> &e = *L.hk; co_await e; }
                else { auto &e = *L.em; co_await e; }
                L.seen.push(0);
            } else {
                int v;
                if (L.hooked) { HProbe<T> &e = *L.hk; T &r = co_await e; v = val_of(r); }
                else { auto &e = *L.em; T &r = co_await e; v = val_of(r); }
                L.seen.push(v);
            }
        } catch (const cocls::await_canceled_exception &) {
            L.seen.push(CANCEL);
            canceled = true;
        }
        if (L.loop) {
            if (canceled) break;
            continue;               // nothing between two signals except re-awaiting the emitter
        }
        L.phase = Phase::gate;
        co_await Gate<T>{L};
    }
    L.phase = Phase::done;
    for (;;) co_await Gate<T>{L};   // never finishes by itself: the replayer destroys the frame
}

// ---- connected callbacks ------------------------------------------------------------------------
struct CbState {
    std::string name;
    int quota = 0;          // number of calls answered with true
    int calls = 0;
    bool connected = false;
    int ctor = 0, dtor = 0;
    const void *inst[8];
    int ninst = 0;
    Seen seen;
    void add(const void *p) { ctor++; if (ninst < 8) inst[ninst++] = p; }
    void del(const void *p) {
        dtor++;
        for (int i = 0; i < ninst; i++) if (inst[i] == p) { inst[i] = inst[--ninst]; return; }
        dtor += 1000;       // destruction of an instance that is not alive
    }
    int live() const { return ctor - dtor; }
};

struct CbFn {
    CbState *s;
    explicit CbFn(CbState *s) : s(s) { s->add(this); }
    CbFn(const CbFn &o) : s(o.s) { s->add(this); }
    CbFn(CbFn &&o) : s(o.s) { s->add(this); }
    ~CbFn() { s->del(this); }
    bool operator()(int &v) { s->seen.push(v); return s->calls++ < s->quota; }
    bool operator()(Pay &v) { s->seen.push(v.v); return s->calls++ < s->quota; }
    bool operator()() { s->seen.push(0); return s->calls++ < s->quota; }
};

// ---- the world ----------------------------------------------------------------------------------
template <typename T>
struct World {
    using signal_t = cocls::signal<T>;
    using collector_t = typename signal_t::collector;
    using emitter_t = typename signal_t::emitter;
    using state_t = typename decltype(std::declval<collector_t>()._state)::element_type;
    using slot_t = std::conditional_t<std::is_void_v<T>, int, T>;
    static constexpr int NH = 6;
    static constexpr int NS = 3;           // signals 1..NS-1

    // one signal: its signal/collector objects, the caller's variable passed by reference, an emitter kept as an lvalue
    struct Sig {
        std::optional<signal_t> sigs[NH];
        std::optional<collector_t> cols[NH];
        bool shell[NH] = {};               // the object in this slot has been moved from: it carries no state
        int created = 0;                   // handle slots used so far
        std::weak_ptr<state_t> wk;
        state_t *raw = nullptr;
        slot_t lv_slot{};
        std::optional<emitter_t> src_em;   // obtained when the signal was created, never awaited: a source of copies
    };
    Sig S[NS];
    int nsig = 1;
    std::map<std::string, LState<T>> ls;
    std::map<std::string, CbState> cbs;
    std::optional<cocls::suspend_point<void>> held;
    slot_t rv_slot{};                      // the object passed by rvalue reference
    int nemit = 0;
    int pick = 0;
    bool coro = false;
    bool late = false;
    std::string hooked;
    void *driver_addr = nullptr;

    void setup(const Scenario &sc) {
        coro = sc.hdr.at("coro").as_bool();
        pick = (int) sc.hdr.at("pick").as_int();
        late = sc.hdr.at("late").as_bool(false);
        hooked = sc.hdr.at("hooked").as_str("");
        nsig = (int) sc.hdr.at("nsig").as_int(1);
        if (nsig < 1 || nsig >= NS) throw std::runtime_error("bad nsig");
        if (hooked.empty()) {
            for (int s = 1; s <= nsig; s++) {
                S[s].sigs[0].emplace();
                S[s].created = 1;
                collector_t c = S[s].sigs[0]->get_collector();
                S[s].wk = c._state;
                S[s].raw = c._state.get();
                S[s].src_em.emplace(S[s].sigs[0]->get_emitter());
            }
        }
        for (auto &kv : sc.hdr.at("kinds").m) {
            const std::string &k = kv.second.s;
            if (k == "loop" || k == "gated") {
                LState<T> &L = ls[kv.first];
                L.name = kv.first;
                L.loop = k == "loop";
                L.hooked = kv.first == hooked;
                if (S[1].sigs[0]) L.em.emplace(S[1].sigs[0]->get_emitter());
                else L.em.emplace();
            } else {
                CbState &c = cbs[kv.first];
                c.name = kv.first;
                c.quota = k == "cbt" ? 1000000 : k == "cbonce" ? 1 : 0;
            }
        }
    }

    // called by the registration function of hook_up(): the signal exists now
    void born(collector_t &c) {
        S[1].wk = c._state;
        S[1].raw = c._state.get();
        S[1].src_em.emplace(signal_t(c).get_emitter());
        for (auto &kv : ls) if (!kv.second.hooked) *kv.second.em = signal_t(c).get_emitter();
    }

    // -- handles ----------------------------------------------------------------------------------
    bool live_slot(const Sig &g, int i) const { return (g.sigs[i] || g.cols[i]) && !g.shell[i]; }
    int live_handles(int s) const {
        int n = 0;
        for (int i = 0; i < NH; i++) n += live_slot(S[s], i) ? 1 : 0;
        return n;
    }
    int all_live_handles() const { int n = 0; for (int s = 1; s <= nsig; s++) n += live_handles(s); return n; }
    int nth_live(int s, int n) const {
        for (int i = 0; i < NH; i++) if (live_slot(S[s], i)) { if (n-- == 0) return i; }
        return -1;
    }
    // a slot for a new object: an empty one, else the one of the oldest moved-from object (which is destroyed: no effect)
    int free_slot(Sig &g) {
        for (int i = 0; i < NH; i++) if (!g.sigs[i] && !g.cols[i]) return i;
        for (int i = 0; i < NH; i++) if (g.shell[i]) { g.sigs[i].reset(); g.cols[i].reset(); g.shell[i] = false; return i; }
        throw std::runtime_error("too many handles");
    }
    collector_t collector_of(Sig &g, int i) { return g.sigs[i] ? g.sigs[i]->get_collector() : *g.cols[i]; }
    signal_t signal_of(Sig &g, int i) { return g.sigs[i] ? *g.sigs[i] : signal_t(*g.cols[i]); }
    void copy_handle(int s) {
        Sig &g = S[s];
        int src = nth_live(s, (pick + g.created) % live_handles(s));
        int dst = free_slot(g);
        if ((g.created++ + pick) % 2) g.cols[dst].emplace(collector_of(g, src));
        else g.sigs[dst].emplace(signal_of(g, src));
    }
    // the object of a live slot is moved to a new object of the same class (move construction, or move assignment
    // to an object that has been moved from before); the source stays where it is, without state
    void move_handle(int s, int salt) {
        Sig &g = S[s];
        int src = nth_live(s, (pick + salt) % live_handles(s));
        bool is_sig = g.sigs[src].has_value();
        int dst = -1;
        if ((pick + salt) % 3 != 0) {
            for (int i = 0; i < NH && dst < 0; i++) if (g.shell[i] && (is_sig ? g.sigs[i].has_value() : g.cols[i].has_value())) dst = i;
        }
        if (dst >= 0) {
            if (is_sig) *g.sigs[dst] = std::move(*g.sigs[src]);
            else *g.cols[dst] = std::move(*g.cols[src]);
            g.shell[dst] = false;
        } else {
            dst = free_slot(g);
            if (is_sig) g.sigs[dst].emplace(std::move(*g.sigs[src]));
            else g.cols[dst].emplace(std::move(*g.cols[src]));
        }
        g.shell[src] = true;
    }
    void drop_handle(int s, int salt) {
        Sig &g = S[s];
        int i = nth_live(s, (pick + salt) % live_handles(s));
        g.sigs[i].reset();
        g.cols[i].reset();
    }
    // a signal object without state: one that has been moved from in this history, else a fresh one; a collector
    // object without state is turned into a signal first (collector::operator signal)
    signal_t stateless_signal(int salt) {
        std::vector<std::pair<int, int>> sh;
        for (int s = 1; s <= nsig; s++) for (int i = 0; i < NH; i++) if (S[s].shell[i]) sh.push_back({s, i});
        if (!sh.empty()) {
            auto [s, i] = sh[(pick + salt) % sh.size()];
            if (S[s].sigs[i]) return *S[s].sigs[i];
            return signal_t(*S[s].cols[i]);
        }
        signal_t a;
        signal_t b(std::move(a));
        return a;                           // (copy of the moved-from object; b and its state die here)
    }
    signal_t *shell_signal(int salt) {
        std::vector<signal_t *> sh;
        for (int s = 1; s <= nsig; s++) for (int i = 0; i < NH; i++) if (S[s].shell[i] && S[s].sigs[i]) sh.push_back(&*S[s].sigs[i]);
        return sh.empty() ? nullptr : sh[(pick + salt) % sh.size()];
    }

    // -- naming of chain nodes and handles --------------------------------------------------------
    std::string who(const cocls::awaiter *n) {
        for (auto &kv : ls) {
            if (kv.second.hooked ? (kv.second.hk && kv.second.hk->node() == n)
                                 : (kv.second.em && static_cast<const cocls::awaiter *>(&*kv.second.em) == n)) return kv.first;
        }
        // a connect() node is `class Awt : emitter { Fn _fn; }` (signal.h:263-308): the live functor
        // instance sits right behind the emitter base
        const char *p = reinterpret_cast<const char *>(n) + sizeof(emitter_t);
        for (auto &kv : cbs) {
            for (int i = 0; i < kv.second.ninst; i++) {
                const char *a = static_cast<const char *>(kv.second.inst[i]);
                if (a >= p && a < p + 16) return kv.first;
            }
        }
        return "unknown";
    }
    std::string who_handle(void *a) {
        for (auto &kv : ls) if (kv.second.h.address() == a) return kv.first;
        if (a == driver_addr) return "driver";
        return "unknown";
    }
    // which signal a weak reference designates (0: none)
    template <typename W>
    int bound_to(const W &w) {
        auto same = [](const auto &a, const auto &b) { return !a.owner_before(b) && !b.owner_before(a); };
        if (same(w, std::weak_ptr<state_t>())) return 0;
        for (int s = 1; s <= nsig; s++) if (same(w, S[s].wk)) return s;
        return -2;
    }

    J project() {
        J m = J::map();
        J jrefs = J::map(), jchain = J::map(), jcur = J::map(), jstor = J::map(), jcvar = J::map();
        std::vector<std::string> allchain, spv, qv;
        for (int s = 1; s <= nsig; s++) {
            Sig &g = S[s];
            std::string key = std::to_string(s);
            long refs = g.wk.use_count();
            jrefs.set(key, refs);
            std::vector<std::string> chain;
            std::string cur = "null";
            J stor = J::map();
            stor.set("has", false);
            stor.set("v", 0);
            if (refs > 0) {
                int fuel = 12;
                for (cocls::awaiter *n = g.raw->_chain.verif_peek(); n && fuel--; n = n->_next) chain.push_back(who(n));
                if (g.raw->_cur_val == nullptr) cur = "null";
                else if (g.raw->_value_storage.has_value() && g.raw->_cur_val == &*g.raw->_value_storage) cur = "storage";
                else if constexpr (!std::is_void_v<T>) { cur = g.raw->_cur_val == &g.lv_slot ? "caller" : "other"; }
                else cur = "other";
                if (g.raw->_value_storage.has_value()) {
                    stor.set("has", true);
                    if constexpr (std::is_void_v<T>) stor.set("v", 0);
                    else stor.set("v", val_of(*g.raw->_value_storage));
                }
            }
            jchain.set(key, J::list(chain.begin(), chain.end()));
            jcur.set(key, cur);
            jstor.set(key, stor);
            jcvar.set(key, val_of(g.lv_slot));
            allchain.insert(allchain.end(), chain.begin(), chain.end());
        }
        if (held) for (void *a : SPProbe::handles(*held)) spv.push_back(who_handle(a));
        if (cocls::coro_queue::instance) {
            for (auto h : cocls::coro_queue::instance->_queue) qv.push_back(who_handle(h.address()));
        }
        auto in = [](const std::vector<std::string> &v, const std::string &x) { return std::find(v.begin(), v.end(), x) != v.end(); };
        m.set("refs", jrefs);
        m.set("chain", jchain);
        m.set("cur", jcur);
        m.set("stor", jstor);
        m.set("cvar", jcvar);
        m.set("sp", J::list(spv.begin(), spv.end()));
        m.set("queue", J::list(qv.begin(), qv.end()));
        m.set("held", held.has_value());
        m.set("nemit", nemit);
        J st = J::map(), rec = J::map(), cblive = J::map(), jbind = J::map();
        for (auto &kv : ls) {
            LState<T> &L = kv.second;
            std::string s;
            switch (L.phase) {
                case Phase::fresh: s = "new"; break;
                case Phase::gate: s = "gate"; break;
                case Phase::done: s = "done"; break;
                case Phase::awaiting:
                    s = in(allchain, kv.first) ? "waiting" : (in(spv, kv.first) || in(qv, kv.first)) ? "released" : "lost";
                    break;
            }
            st.set(kv.first, s);
            rec.set(kv.first, L.seen.json());
            if (hooked.empty()) jbind.set(kv.first, bound_to(EmProbe<T>::weak_state(*L.em)));   // (hook_up: no signal to be bound to before HookUp)
        }
        for (auto &kv : cbs) {
            CbState &c = kv.second;
            std::string s;
            if (!c.connected) s = "new";
            else if (c.live() == 0) s = "freed";
            else if (c.live() == 1) s = in(allchain, kv.first) ? "waiting" : "lost";
            else s = "live=" + std::to_string(c.live());
            st.set(kv.first, s);
            rec.set(kv.first, c.seen.json());
            cblive.set(kv.first, c.live());
        }
        m.set("st", st);
        m.set("received", rec);
        m.set("bind", jbind);
        m.set("cblive", cblive);
        m.set("heap", lib_net);
        return m;
    }

    // the signal argument of an action label (1 if the action has none)
    int sig_arg(const Step &stp, std::size_t i) const {
        int s = stp.args.size() > i ? stp.iarg(i) : 1;
        if (s < 1 || s > nsig) throw std::runtime_error("bad signal in " + stp.label);
        return s;
    }

    // -- actions that need no suspension of the caller; returns false on an unknown action --------
    bool exec(const Step &stp, std::size_t k, Reporter &rep) {
        const std::string &a = stp.name;
        if (a == "ListenerAwait") {
            auto it = ls.find(stp.sarg(0));
            if (it == ls.end()) { rep.error(k, "unknown listener"); return false; }
            LState<T> &L = it->second;
            if (L.phase == Phase::fresh) {
                if (L.hooked) { rep.error(k, "hooked listener starts with HookUp"); return false; }
                if (late && L.bind != 0 && live_handles(L.bind) > 0) {
                    Sig &g = S[L.bind];
                    int i = nth_live(L.bind, (pick + (int) k) % live_handles(L.bind));
                    *L.em = g.sigs[i] ? g.sigs[i]->get_emitter() : signal_t(*g.cols[i]).get_emitter();
                }
                start(L);                              // runs up to `co_await emitter`
            } else if (L.gate_h) {
                auto g = std::exchange(L.gate_h, {});
                lib_scope s;
                g.resume();
            } else { rep.error(k, "listener is not at a gate"); return false; }
        } else if (a == "Rebind") {
            // Rebind(l, how, src): src = a signal number (0: the empty emitter) or another listener (its emitter object)
            auto it = ls.find(stp.sarg(0));
            if (it == ls.end() || it->second.hooked) { rep.error(k, "unknown listener"); return false; }
            LState<T> &L = it->second;
            if (L.phase == Phase::awaiting) { rep.error(k, "listener is suspended on its emitter"); return false; }
            const std::string &how = stp.sarg(1);
            const std::string &src = stp.sarg(2);
            const emitter_t *lv = nullptr;             // the source, an lvalue that must stay as it is
            std::optional<emitter_t> tmp;              // or a temporary
            int var = (pick + (int) k) % 3;
            auto os = ls.find(src);
            if (os != ls.end()) {
                if (os->second.hooked || &os->second == &L || (how != "cctor" && how != "cassign")) { rep.error(k, "bad source"); return false; }
                lv = &*os->second.em;
                L.bind = os->second.bind;
            } else {
                int s = atoi(src.c_str());
                if (s < 0 || s > nsig) { rep.error(k, "bad source"); return false; }
                L.bind = s;
                if (s == 0) {
                    if (var == 0) tmp.emplace();                                    // emitter()
                    else if (var == 1) tmp.emplace(stateless_signal((int) k).get_emitter());
                    else tmp.emplace(std::weak_ptr<state_t>());
                } else if (live_handles(s) > 0 && var != 0) {
                    int i = nth_live(s, (pick + (int) k) % live_handles(s));
                    tmp.emplace(S[s].sigs[i] ? S[s].sigs[i]->get_emitter() : signal_t(*S[s].cols[i]).get_emitter());
                } else lv = &*S[s].src_em;
            }
            lib_scope sc;
            if (how == "cctor") {
                if (lv) L.em.emplace(*lv);
                else { const emitter_t &c = *tmp; L.em.emplace(c); }
            } else if (how == "cassign") {
                if (lv) *L.em = *lv;
                else { const emitter_t &c = *tmp; *L.em = c; }
            } else if (how == "mctor") {
                if (lv) tmp.emplace(*lv);              // never move from somebody else's object
                L.em.emplace(std::move(*tmp));
            } else if (how == "massign") {
                if (lv) tmp.emplace(*lv);
                *L.em = std::move(*tmp);
            } else { rep.error(k, "bad form of re-binding"); return false; }
            tmp.reset();
        } else if (a == "HookUp") {
            auto it = ls.find(stp.sarg(0));
            if (it == ls.end() || !it->second.hooked || it->second.phase != Phase::fresh) { rep.error(k, "cannot hook up"); return false; }
            LState<T> &L = it->second;
            L.hk.emplace(signal_t::hook_up(Reg<T>{this, stp.iarg(2), stp.sarg(1) == "store"}));
            start(L);                                  // first co_await: signal created, subscribed, registration function called
            // the shared state allocated inside hook_up lives until the last emitter (held by the replayer) is gone
            lib_net -= 1;
        } else if (a == "Connect") {
            auto it = cbs.find(stp.sarg(0));
            int s = sig_arg(stp, 1);
            if (it == cbs.end() || live_handles(s) == 0) { rep.error(k, "cannot connect"); return false; }
            it->second.connected = true;
            Sig &g = S[s];
            int i = nth_live(s, (pick + (int) k) % live_handles(s));
            lib_scope sc;
            if (g.sigs[i]) g.sigs[i]->connect(CbFn(&it->second));
            else { signal_t tmp(*g.cols[i]); tmp.connect(CbFn(&it->second)); }
        } else if (a == "ConnectDead") {
            // connect() on a signal object without state: the object itself if the history has moved from one
            auto it = cbs.find(stp.sarg(0));
            if (it == cbs.end()) { rep.error(k, "cannot connect"); return false; }
            it->second.connected = true;
            signal_t *sh = (pick + (int) k) % 2 ? shell_signal((int) k) : nullptr;
            if (sh) {
                lib_scope sc;
                sh->connect(CbFn(&it->second));
            } else {
                signal_t tmp = stateless_signal((int) k);
                lib_scope sc;
                tmp.connect(CbFn(&it->second));
            }
        } else if (a == "Emit") {
            int s = sig_arg(stp, 0);
            if (live_handles(s) == 0 || held) { rep.error(k, "cannot emit"); return false; }
            Sig &g = S[s];
            int i = nth_live(s, (pick + (int) k) % live_handles(s));
            int v = ++nemit;
            const std::string &form = stp.sarg(1);
            std::optional<collector_t> tc;
            if (!g.cols[i]) tc.emplace(g.sigs[i]->get_collector());
            const collector_t &col = g.cols[i] ? *g.cols[i] : *tc;
            {
                lib_scope sc;
                if constexpr (std::is_void_v<T>) {
                    if (form != "void") { rep.error(k, "bad form"); return false; }
                    held.emplace(col());
                } else {
                    if (form == "inplace") {
                        // argument is not a T: the constructing template overload (signal.h:96) is selected
                        held.emplace(col(static_cast<short>(v)));
                    } else if (form == "inplace2") {
                        if constexpr (std::is_same_v<T, Pay>) held.emplace(col(v / 10, v % 10));
                        else { rep.error(k, "bad form"); return false; }
                    } else if (form == "default") {
                        held.emplace(col());               // the same overload without arguments: T{}
                    } else if (form == "rvalue") {
                        set_val(rv_slot, v);
                        held.emplace(col(std::move(rv_slot)));
                        set_val(rv_slot, TEMP_DEAD);       // the temporary is gone once the call returned
                    } else if (form == "lvalue") {
                        set_val(g.lv_slot, v);
                        held.emplace(col(g.lv_slot));
                    } else { rep.error(k, "bad form"); return false; }
                }
                tc.reset();
            }
        } else if (a == "ReleaseSP") {
            if (stp.sarg(0) != "discard") { rep.error(k, "await outside of a coroutine"); return false; }
            lib_scope s;
            held.reset();
        } else if (a == "CopyHandle") {
            int s = sig_arg(stp, 0);
            if (live_handles(s) == 0) { rep.error(k, "no handle"); return false; }
            lib_scope sc;
            copy_handle(s);
        } else if (a == "MoveHandle") {
            int s = sig_arg(stp, 0);
            if (live_handles(s) == 0) { rep.error(k, "no handle"); return false; }
            lib_scope sc;
            move_handle(s, (int) k);
        } else if (a == "DropHandle" || a == "StateDtor") {
            int s = sig_arg(stp, 0);
            if (live_handles(s) == 0) { rep.error(k, "no handle"); return false; }
            lib_scope sc;
            drop_handle(s, (int) k);
        } else if (a == "EndScope") {
            set_val(S[sig_arg(stp, 0)].lv_slot, POISON);
        } else {
            rep.error(k, "unknown action");
            return false;
        }
        return true;
    }

    // a fresh listener coroutine is started the way async::detach()/start() does it: directly inside a running
    // coroutine, under a freshly installed coroutine queue on a normal thread
    void start(LState<T> &L) {
        auto c = listener_body<T>(L);          // frame allocation is the user's
        auto sp = c.detach();
        L.h = sp.pop();
        lib_scope s;
        if (coro) L.h.resume();
        else cocls::coro_queue::install_queue_and_resume(L.h);
    }

    // release everything that is still held; must leave nobody waiting
    void wind_up() {
        lib_scope s;
        held.reset();
        for (int g = 1; g < NS; g++) for (int i = 0; i < NH; i++) { S[g].sigs[i].reset(); S[g].cols[i].reset(); S[g].shell[i] = false; }
    }

    void final_checks(const Scenario &sc, Reporter &rep) {
        if (rep.failed()) return;
        std::size_t last = sc.steps.empty() ? 0 : sc.steps.size() - 1;
        for (auto &kv : ls) {
            if (kv.second.phase == Phase::awaiting) { rep.diverge(last, "listener " + kv.first + " still suspended on the emitter after the last handle is gone"); return; }
        }
        for (auto &kv : cbs) {
            if (kv.second.live() != 0) { rep.diverge(last, "callback " + kv.first + " ctor/dtor imbalance: live=" + std::to_string(kv.second.live())); return; }
        }
        if (lib_net != 0) rep.diverge(last, "allocations made by the library are not balanced: " + std::to_string(lib_net));
    }

    void destroy_frames() {
        for (auto &kv : ls) if (kv.second.h) { kv.second.h.destroy(); kv.second.h = {}; }
    }
};

template <typename T>
void Reg<T>::operator()(typename cocls::signal<T>::collector c) {
    w->born(c);
    for (int i = 0; i < n; i++) {
        int v = ++w->nemit;
        // each call's suspend point is discarded at once ("replay the current value to the new observer")
        if constexpr (std::is_void_v<T>) { (void) v; c(); }
        else if ((w->pick + i) % 2) c(static_cast<short>(v));
        else { set_val(w->rv_slot, v); c(std::move(w->rv_slot)); set_val(w->rv_slot, TEMP_DEAD); }
    }
    if (store) { w->S[1].cols[0].emplace(std::move(c)); w->S[1].created = 1; }
}

template <typename T>
cocls::async<void> driver(World<T> &w, const Scenario &sc, Reporter &rep) {
    for (std::size_t k = 0; k < sc.steps.size(); k++) {
        const Step &st = sc.steps[k];
        if (st.name == "ReleaseSP" && st.sarg(0) == "await") {
            lib_scope s;
            if (w.held) {
                co_await std::move(*w.held);
                w.held.reset();
            }
        } else if (st.name == "Yield") {
            lib_scope s;
            co_await cocls::pause();
        } else if (!w.exec(st, k, rep)) break;
        if (!rep.check(k, w.project())) break;
    }
    w.wind_up();
}

template <typename T>
static void run_world(const Scenario &sc, Reporter &rep) {
    // the thread's ready queue is a std::deque that allocates a block every 64 pushes: start every
    // scenario from a fresh one so that this never happens inside a measured library call
    cocls::coro_queue::queue_impl::instance._queue = std::deque<std::coroutine_handle<>>();
    lib_net = 0;
    long base = alloc_stats::news - alloc_stats::deletes;
    long pay0 = Pay::live;
    {
        World<T> w;
        w.setup(sc);
        if (w.coro) {
            auto d = driver<T>(w, sc, rep);
            auto sp = d.detach();
            std::coroutine_handle<> h = sp.pop();
            w.driver_addr = h.address();
            bool finished = false;
            // the coroutine frame destroys itself on completion; completion is observed through wind_up()
            cocls::coro_queue::install_queue_and_resume(h);
            finished = w.all_live_handles() == 0 && !w.held;
            if (!finished) {
                if (!rep.failed()) rep.diverge(sc.steps.empty() ? 0 : sc.steps.size() - 1, "driver coroutine was never resumed again");
                fflush(stdout);
                _exit(1);
            }
        } else {
            for (std::size_t k = 0; k < sc.steps.size(); k++) {
                if (!w.exec(sc.steps[k], k, rep)) break;
                if (!rep.check(k, w.project())) break;
            }
            w.wind_up();
        }
        w.final_checks(sc, rep);
        w.destroy_frames();
    }
    long after = alloc_stats::news - alloc_stats::deletes;
    std::size_t last = sc.steps.empty() ? 0 : sc.steps.size() - 1;
    if (after != base && !rep.failed()) {
        rep.diverge(last, "allocation imbalance over the scenario: " + std::to_string(after - base));
    }
    if (Pay::live != pay0 && !rep.failed()) {
        rep.diverge(last, "value objects constructed and destroyed are not balanced: " + std::to_string(Pay::live - pay0));
    }
}

int main() {
    return replay_main(std::cin, [](const Scenario &sc, Reporter &rep) {
        if (sc.hdr.at("void").as_bool()) run_world<void>(sc, rep);
        else if (sc.hdr.at("pay").as_bool(false)) run_world<Pay>(sc, rep);
        else run_world<int>(sc, rep);
    });
}
