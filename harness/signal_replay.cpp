// signal_replay.cpp -- replays behaviours of spec/Signal/Signal.tla (sequential histories) on the
// real cocls::signal<int> / cocls::signal<void>: scripted listener coroutines on emitters, connect()
// callbacks, the four call forms of the collector, held / discarded / awaited suspend points, on a
// normal thread ("coro":false) or inside a coroutine with an active coro_queue ("coro":true).
// After every step the real objects are projected to the abstract state and compared.
//
// header: {"void":bool,"coro":bool,"pick":int,"kinds":{"l1":"loop","g2":"gated","t3":"cbt","o4":"cbonce","f5":"cbf"},
//          "hooked":"l1"|"" -- that listener awaits signal<T>::hook_up(fn); there is no signal before its first co_await
//                              (action HookUp(l,mode,n): fn emits n values through the collector, then stores / drops it),
//          "late":bool      -- a listener's emitter is obtained at its first co_await (after collectors/copies exist)
//                              instead of before any other handle was derived from the signal}
// projection:
//   {"refs":use_count of the shared state,"chain":[listeners from the top],"cur":"null|storage|caller",
//    "stor":{"has","v"},"cvar":int,"held":bool,"sp":[..],"queue":[..],"st":{l:state},"received":{l:[..]},
//    "nemit":n,"heap":net allocations made inside library calls (= live connect() objects),
//    "cblive":{c:live instances of the callback functor}}
#define REPLAY_COUNT_ALLOCS
#include <cocls/signal.h>
#include <cocls/async.h>
#include <cocls/future.h>
#include "replay_common.h"

#include <optional>

using namespace rp;

static constexpr int CANCEL = -1;
static constexpr int POISON = -9;
static constexpr int TEMP_DEAD = -7;   // content of the rvalue argument after the call returned

// ---- allocation accounting: only what happens inside library calls -------------------------------
static long lib_net = 0;
struct lib_scope {
    long n0, d0;
    lib_scope() : n0(alloc_stats::news), d0(alloc_stats::deletes) {}
    ~lib_scope() { lib_net += (alloc_stats::news - n0) - (alloc_stats::deletes - d0); }
};

struct SPProbe : cocls::suspend_point<void> {
    static std::vector<void *> handles(const cocls::suspend_point<void> &s) {
        auto b = &SPProbe::begin;
        auto e = &SPProbe::end;
        std::vector<void *> out;
        for (auto p = (s.*b)(); p != (s.*e)(); ++p) out.push_back(*p);
        return out;
    }
};

struct Seen {
    int v[24];
    int n = 0;
    void push(int x) { if (n < 24) v[n] = x; n++; }
    J json() const { J l = J::list(); for (int i = 0; i < n && i < 24; i++) l.push(v[i]); return l; }
};

// ---- coroutine listeners ------------------------------------------------------------------------
enum class Phase { fresh, gate, awaiting, done };

template <typename T> struct World;

// registration function handed to signal<T>::hook_up(): called with the collector of the freshly created signal
template <typename T>
struct Reg {
    World<T> *w;
    int n;          // values emitted through the collector before returning
    bool store;     // keep the collector (else let it go)
    void operator()(typename cocls::signal<T>::collector c);
};

// the object returned by hook_up(), wrapped only to read what it keeps protected (chain node address, weak state)
template <typename T>
struct HProbe : cocls::signal<T>::template hook_up_emitter<Reg<T>> {
    using base_t = typename cocls::signal<T>::template hook_up_emitter<Reg<T>>;
    HProbe(base_t &&b) : base_t(std::move(b)) {}
    const cocls::awaiter *node() const { return static_cast<const cocls::awaiter *>(this); }
    auto weak_state() const { return this->_wk_state; }
};

template <typename T>
struct LState {
    std::string name;
    bool loop = false;
    bool hooked = false;
    std::optional<HProbe<T>> hk;        // hooked listener: what it co_awaits
    typename cocls::signal<T>::emitter em;
    std::coroutine_handle<> h{};        // the frame (parked at a gate or on the emitter)
    std::coroutine_handle<> gate_h{};   // set while parked at a gate
    Phase phase = Phase::fresh;
    Seen seen;
};

template <typename T>
struct Gate {
    LState<T> &L;
    bool await_ready() const noexcept { return false; }
    void await_suspend(std::coroutine_handle<> h) noexcept { L.gate_h = h; }
    void await_resume() const noexcept {}
};

// No allocation happens in the body (it runs nested inside library calls whose allocations are counted).
template <typename T>
cocls::async<void> listener_body(LState<T> &L) {
    for (;;) {
        L.phase = Phase::awaiting;
        bool canceled = false;
        try {
            // (the operand must be a named lvalue: g++ 12 awaits a COPY of `*L.hk`)
            if constexpr (std::is_void_v<T>) {
                if (L.hooked) { HProbe<T> &e = *L.hk; co_await e; }
                else co_await L.em;
                L.seen.push(0);
            } else {
                int v;
                if (L.hooked) { HProbe<T> &e = *L.hk; int &r = co_await e; v = r; }
                else { int &r = co_await L.em; v = r; }
                L.seen.push(v);
            }
        } catch (const cocls::await_canceled_exception &) {
            L.seen.push(CANCEL);
            canceled = true;
        }
        if (L.loop) {
            if (canceled) break;
            continue;               // nothing between two signals except re-awaiting the emitter
        }
        L.phase = Phase::gate;
        co_await Gate<T>{L};
    }
    L.phase = Phase::done;
    for (;;) co_await Gate<T>{L};   // never finishes by itself: the replayer destroys the frame
}

// ---- connected callbacks ------------------------------------------------------------------------
struct CbState {
    std::string name;
    int quota = 0;          // number of calls answered with true
    int calls = 0;
    bool connected = false;
    int ctor = 0, dtor = 0;
    const void *inst[8];
    int ninst = 0;
    Seen seen;
    void add(const void *p) { ctor++; if (ninst < 8) inst[ninst++] = p; }
    void del(const void *p) {
        dtor++;
        for (int i = 0; i < ninst; i++) if (inst[i] == p) { inst[i] = inst[--ninst]; return; }
        dtor += 1000;       // destruction of an instance that is not alive
    }
    int live() const { return ctor - dtor; }
};

struct CbFn {
    CbState *s;
    explicit CbFn(CbState *s) : s(s) { s->add(this); }
    CbFn(const CbFn &o) : s(o.s) { s->add(this); }
    CbFn(CbFn &&o) : s(o.s) { s->add(this); }
    ~CbFn() { s->del(this); }
    bool operator()(int &v) { s->seen.push(v); return s->calls++ < s->quota; }
    bool operator()() { s->seen.push(0); return s->calls++ < s->quota; }
};

// ---- the world ----------------------------------------------------------------------------------
template <typename T>
struct World {
    using signal_t = cocls::signal<T>;
    using collector_t = typename signal_t::collector;
    using state_t = typename decltype(std::declval<collector_t>()._state)::element_type;
    static constexpr int NH = 6;

    std::optional<signal_t> sigs[NH];
    std::optional<collector_t> cols[NH];
    int created = 0;                       // handle slots used so far
    std::weak_ptr<state_t> wk;
    state_t *raw = nullptr;
    std::map<std::string, LState<T>> ls;
    std::map<std::string, CbState> cbs;
    std::optional<cocls::suspend_point<void>> held;
    int lv_slot = 0;                       // the caller's variable passed by lvalue reference
    int rv_slot = 0;                       // the object passed by rvalue reference
    int nemit = 0;
    int pick = 0;
    bool coro = false;
    bool late = false;
    std::string hooked;
    void *driver_addr = nullptr;

    void setup(const Scenario &sc) {
        coro = sc.hdr.at("coro").as_bool();
        pick = (int) sc.hdr.at("pick").as_int();
        late = sc.hdr.at("late").as_bool(false);
        hooked = sc.hdr.at("hooked").as_str("");
        if (hooked.empty()) {
            sigs[0].emplace();
            created = 1;
            collector_t c = sigs[0]->get_collector();
            wk = c._state;
            raw = c._state.get();
        }
        for (auto &kv : sc.hdr.at("kinds").m) {
            const std::string &k = kv.second.s;
            if (k == "loop" || k == "gated") {
                LState<T> &L = ls[kv.first];
                L.name = kv.first;
                L.loop = k == "loop";
                L.hooked = kv.first == hooked;
                if (sigs[0]) L.em = sigs[0]->get_emitter();
            } else {
                CbState &c = cbs[kv.first];
                c.name = kv.first;
                c.quota = k == "cbt" ? 1000000 : k == "cbonce" ? 1 : 0;
            }
        }
    }

    // called by the registration function of hook_up(): the signal exists now
    void born(collector_t &c) {
        wk = c._state;
        raw = c._state.get();
        for (auto &kv : ls) if (!kv.second.hooked) kv.second.em = signal_t(c).get_emitter();
    }

    // -- handles ----------------------------------------------------------------------------------
    int live_handles() const {
        int n = 0;
        for (int i = 0; i < NH; i++) n += (sigs[i] ? 1 : 0) + (cols[i] ? 1 : 0);
        return n;
    }
    int nth_live(int n) const {
        for (int i = 0; i < NH; i++) if (sigs[i] || cols[i]) { if (n-- == 0) return i; }
        return -1;
    }
    collector_t collector_of(int i) { return sigs[i] ? sigs[i]->get_collector() : *cols[i]; }
    signal_t signal_of(int i) { return sigs[i] ? *sigs[i] : signal_t(*cols[i]); }
    void copy_handle() {
        int src = nth_live((pick + created) % live_handles());
        int dst = 0;
        while (dst < NH && (sigs[dst] || cols[dst])) dst++;
        if (dst >= NH) throw std::runtime_error("too many handles");
        if ((created++ + pick) % 2) cols[dst].emplace(collector_of(src));
        else sigs[dst].emplace(signal_of(src));
    }
    void drop_handle(int salt) {
        int i = nth_live((pick + salt) % live_handles());
        sigs[i].reset();
        cols[i].reset();
    }

    // -- naming of chain nodes and handles --------------------------------------------------------
    std::string who(const cocls::awaiter *n) {
        for (auto &kv : ls) {
            if (kv.second.hooked ? (kv.second.hk && kv.second.hk->node() == n) : static_cast<const cocls::awaiter *>(&kv.second.em) == n) return kv.first;
        }
        // a connect() node is `class Awt : emitter { Fn _fn; }` (signal.h:263-308): the live functor
        // instance sits right behind the emitter base
        const char *p = reinterpret_cast<const char *>(n) + sizeof(typename signal_t::emitter);
        for (auto &kv : cbs) {
            for (int i = 0; i < kv.second.ninst; i++) {
                const char *a = static_cast<const char *>(kv.second.inst[i]);
                if (a >= p && a < p + 16) return kv.first;
            }
        }
        return "unknown";
    }
    std::string who_handle(void *a) {
        for (auto &kv : ls) if (kv.second.h.address() == a) return kv.first;
        if (a == driver_addr) return "driver";
        return "unknown";
    }

    J project() {
        J m = J::map();
        long refs = wk.use_count();
        m.set("refs", refs);
        std::vector<std::string> chain, spv, qv;
        std::string cur = "null";
        J stor = J::map();
        stor.set("has", false);
        stor.set("v", 0);
        if (refs > 0) {
            int fuel = 12;
            for (cocls::awaiter *n = raw->_chain.verif_peek(); n && fuel--; n = n->_next) chain.push_back(who(n));
            if (raw->_cur_val == nullptr) cur = "null";
            else if (raw->_value_storage.has_value() && raw->_cur_val == &*raw->_value_storage) cur = "storage";
            else if constexpr (!std::is_void_v<T>) { cur = raw->_cur_val == &lv_slot ? "caller" : "other"; }
            else cur = "other";
            if (raw->_value_storage.has_value()) {
                stor.set("has", true);
                if constexpr (std::is_void_v<T>) stor.set("v", 0);
                else stor.set("v", *raw->_value_storage);
            }
        }
        if (held) for (void *a : SPProbe::handles(*held)) spv.push_back(who_handle(a));
        if (cocls::coro_queue::instance) {
            for (auto h : cocls::coro_queue::instance->_queue) qv.push_back(who_handle(h.address()));
        }
        auto in = [](const std::vector<std::string> &v, const std::string &x) { return std::find(v.begin(), v.end(), x) != v.end(); };
        m.set("chain", J::list(chain.begin(), chain.end()));
        m.set("sp", J::list(spv.begin(), spv.end()));
        m.set("queue", J::list(qv.begin(), qv.end()));
        m.set("cur", cur);
        m.set("stor", stor);
        m.set("cvar", lv_slot);
        m.set("held", held.has_value());
        m.set("nemit", nemit);
        J st = J::map(), rec = J::map(), cblive = J::map();
        for (auto &kv : ls) {
            LState<T> &L = kv.second;
            std::string s;
            switch (L.phase) {
                case Phase::fresh: s = "new"; break;
                case Phase::gate: s = "gate"; break;
                case Phase::done: s = "done"; break;
                case Phase::awaiting:
                    s = in(chain, kv.first) ? "waiting" : (in(spv, kv.first) || in(qv, kv.first)) ? "released" : "lost";
                    break;
            }
            st.set(kv.first, s);
            rec.set(kv.first, L.seen.json());
        }
        for (auto &kv : cbs) {
            CbState &c = kv.second;
            std::string s;
            if (!c.connected) s = "new";
            else if (c.live() == 0) s = "freed";
            else if (c.live() == 1) s = in(chain, kv.first) ? "waiting" : "lost";
            else s = "live=" + std::to_string(c.live());
            st.set(kv.first, s);
            rec.set(kv.first, c.seen.json());
            cblive.set(kv.first, c.live());
        }
        m.set("st", st);
        m.set("received", rec);
        m.set("cblive", cblive);
        m.set("heap", lib_net);
        return m;
    }

    // -- actions that need no suspension of the caller; returns false on an unknown action --------
    bool exec(const Step &stp, std::size_t k, Reporter &rep) {
        const std::string &a = stp.name;
        if (a == "ListenerAwait") {
            auto it = ls.find(stp.sarg(0));
            if (it == ls.end()) { rep.error(k, "unknown listener"); return false; }
            LState<T> &L = it->second;
            if (L.phase == Phase::fresh) {
                if (L.hooked) { rep.error(k, "hooked listener starts with HookUp"); return false; }
                if (late && live_handles() > 0) {
                    int i = nth_live((pick + (int) k) % live_handles());
                    L.em = sigs[i] ? sigs[i]->get_emitter() : signal_t(*cols[i]).get_emitter();
                }
                start(L);                              // runs up to `co_await emitter`
            } else if (L.gate_h) {
                auto g = std::exchange(L.gate_h, {});
                lib_scope s;
                g.resume();
            } else { rep.error(k, "listener is not at a gate"); return false; }
        } else if (a == "HookUp") {
            auto it = ls.find(stp.sarg(0));
            if (it == ls.end() || !it->second.hooked || it->second.phase != Phase::fresh) { rep.error(k, "cannot hook up"); return false; }
            LState<T> &L = it->second;
            L.hk.emplace(signal_t::hook_up(Reg<T>{this, stp.iarg(2), stp.sarg(1) == "store"}));
            start(L);                                  // first co_await: signal created, subscribed, registration function called
            // the shared state allocated inside hook_up lives until the last emitter (held by the replayer) is gone
            lib_net -= 1;
        } else if (a == "Connect") {
            auto it = cbs.find(stp.sarg(0));
            if (it == cbs.end() || live_handles() == 0) { rep.error(k, "cannot connect"); return false; }
            it->second.connected = true;
            int i = nth_live((pick + (int) k) % live_handles());
            lib_scope s;
            if (sigs[i]) sigs[i]->connect(CbFn(&it->second));
            else { signal_t tmp(*cols[i]); tmp.connect(CbFn(&it->second)); }
        } else if (a == "Emit") {
            if (live_handles() == 0 || held) { rep.error(k, "cannot emit"); return false; }
            int i = nth_live((pick + (int) k) % live_handles());
            int v = ++nemit;
            const std::string &form = stp.sarg(0);
            lib_scope s;
            if constexpr (std::is_void_v<T>) {
                if (form != "void") { rep.error(k, "bad form"); return false; }
                if (cols[i]) held.emplace((*cols[i])());
                else held.emplace(sigs[i]->get_collector()());
            } else {
                if (form == "inplace") {
                    // argument is not an int: the constructing template overload (signal.h:96) is selected
                    if (cols[i]) held.emplace((*cols[i])(static_cast<short>(v)));
                    else held.emplace(sigs[i]->get_collector()(static_cast<short>(v)));
                } else if (form == "rvalue") {
                    rv_slot = v;
                    if (cols[i]) held.emplace((*cols[i])(std::move(rv_slot)));
                    else held.emplace(sigs[i]->get_collector()(std::move(rv_slot)));
                    rv_slot = TEMP_DEAD;               // the temporary is gone once the call returned
                } else if (form == "lvalue") {
                    lv_slot = v;
                    if (cols[i]) held.emplace((*cols[i])(lv_slot));
                    else held.emplace(sigs[i]->get_collector()(lv_slot));
                } else { rep.error(k, "bad form"); return false; }
            }
        } else if (a == "ReleaseSP") {
            if (stp.sarg(0) != "discard") { rep.error(k, "await outside of a coroutine"); return false; }
            lib_scope s;
            held.reset();
        } else if (a == "CopyHandle") {
            lib_scope s;
            copy_handle();
        } else if (a == "DropHandle" || a == "StateDtor") {
            if (live_handles() == 0) { rep.error(k, "no handle"); return false; }
            lib_scope s;
            drop_handle((int) k);
        } else if (a == "EndScope") {
            lv_slot = POISON;
        } else {
            rep.error(k, "unknown action");
            return false;
        }
        return true;
    }

    // a fresh listener coroutine is started the way async::detach()/start() does it: directly inside a running
    // coroutine, under a freshly installed coroutine queue on a normal thread
    void start(LState<T> &L) {
        auto c = listener_body<T>(L);          // frame allocation is the user's
        auto sp = c.detach();
        L.h = sp.pop();
        lib_scope s;
        if (coro) L.h.resume();
        else cocls::coro_queue::install_queue_and_resume(L.h);
    }

    // release everything that is still held; must leave nobody waiting
    void wind_up() {
        lib_scope s;
        held.reset();
        for (int i = 0; i < NH; i++) { sigs[i].reset(); cols[i].reset(); }
    }

    void final_checks(const Scenario &sc, Reporter &rep) {
        if (rep.failed()) return;
        std::size_t last = sc.steps.empty() ? 0 : sc.steps.size() - 1;
        for (auto &kv : ls) {
            if (kv.second.phase == Phase::awaiting) { rep.diverge(last, "listener " + kv.first + " still suspended on the emitter after the last handle is gone"); return; }
        }
        for (auto &kv : cbs) {
            if (kv.second.live() != 0) { rep.diverge(last, "callback " + kv.first + " ctor/dtor imbalance: live=" + std::to_string(kv.second.live())); return; }
        }
        if (lib_net != 0) rep.diverge(last, "allocations made by the library are not balanced: " + std::to_string(lib_net));
    }

    void destroy_frames() {
        for (auto &kv : ls) if (kv.second.h) { kv.second.h.destroy(); kv.second.h = {}; }
    }
};

template <typename T>
void Reg<T>::operator()(typename cocls::signal<T>::collector c) {
    w->born(c);
    for (int i = 0; i < n; i++) {
        int v = ++w->nemit;
        // each call's suspend point is discarded at once ("replay the current value to the new observer")
        if constexpr (std::is_void_v<T>) { (void) v; c(); }
        else if ((w->pick + i) % 2) c(static_cast<short>(v));
        else { w->rv_slot = v; c(std::move(w->rv_slot)); w->rv_slot = TEMP_DEAD; }
    }
    if (store) { w->cols[0].emplace(std::move(c)); w->created = 1; }
}

template <typename T>
cocls::async<void> driver(World<T> &w, const Scenario &sc, Reporter &rep) {
    for (std::size_t k = 0; k < sc.steps.size(); k++) {
        const Step &st = sc.steps[k];
        if (st.name == "ReleaseSP" && st.sarg(0) == "await") {
            lib_scope s;
            if (w.held) {
                co_await std::move(*w.held);
                w.held.reset();
            }
        } else if (st.name == "Yield") {
            lib_scope s;
            co_await cocls::pause();
        } else if (!w.exec(st, k, rep)) break;
        if (!rep.check(k, w.project())) break;
    }
    w.wind_up();
}

template <typename T>
static void run_world(const Scenario &sc, Reporter &rep) {
    // the thread's ready queue is a std::deque that allocates a block every 64 pushes: start every
    // scenario from a fresh one so that this never happens inside a measured library call
    cocls::coro_queue::queue_impl::instance._queue = std::deque<std::coroutine_handle<>>();
    lib_net = 0;
    long base = alloc_stats::news - alloc_stats::deletes;
    {
        World<T> w;
        w.setup(sc);
        if (w.coro) {
            auto d = driver<T>(w, sc, rep);
            auto sp = d.detach();
            std::coroutine_handle<> h = sp.pop();
            w.driver_addr = h.address();
            bool finished = false;
            // the coroutine frame destroys itself on completion; completion is observed through wind_up()
            cocls::coro_queue::install_queue_and_resume(h);
            finished = w.live_handles() == 0 && !w.held;
            if (!finished) {
                if (!rep.failed()) rep.diverge(sc.steps.empty() ? 0 : sc.steps.size() - 1, "driver coroutine was never resumed again");
                fflush(stdout);
                _exit(1);
            }
        } else {
            for (std::size_t k = 0; k < sc.steps.size(); k++) {
                if (!w.exec(sc.steps[k], k, rep)) break;
                if (!rep.check(k, w.project())) break;
            }
            w.wind_up();
        }
        w.final_checks(sc, rep);
        w.destroy_frames();
    }
    long after = alloc_stats::news - alloc_stats::deletes;
    if (after != base && !rep.failed()) {
        rep.diverge(sc.steps.empty() ? 0 : sc.steps.size() - 1, "allocation imbalance over the scenario: " + std::to_string(after - base));
    }
}

int main() {
    return replay_main(std::cin, [](const Scenario &sc, Reporter &rep) {
        if (sc.hdr.at("void").as_bool()) run_world<void>(sc, rep);
        else run_world<int>(sc, rep);
    });
}
