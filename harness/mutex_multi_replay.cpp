// mutex_multi_replay.cpp -- replays histories of spec/Mutex/MutexMulti.tla on real cocls::mutex objects: SEVERAL mutexes
// used by the same parties at the same time, ownership objects kept in holder slots that are re-assigned (private slot,
// one slot per party, one shared holder slot per mutex), requests of the callback kind whose owner runs nested in the
// releaser's unlock().  Sequential: one thread, one public call per step; everything a call triggers has run when it
// returns.
//
// header: {"M":[mutex...], "P":{party:"plain"|"co"}, "slot":{party:{mutex:slot id}}, "through":[party...],
//          "form":{party:"cb"|"sub"}, "rel":{party:"discard"|"keep"|"reset"|"dtor"|"twice"|"await"}, "probe":"dtor"|"release"}
// step labels: Try(p,m) Lock(p,m) Ask(p,m) Suspend(p,m) Block(p,m) Release(p,m) Probe(m)
// projection: public part  {"st":{p:{m:"idle"|"wait"|"hold"}}, "got":[[p,m]...], "res":.., "co":{p:"cmd"|"lock"}, "slot":{id:..}}
//             private part {"req":{m:..}, "chain":{m:[..]}, "queue":{m:[..]}}  and the mutex a slot refers to
// Build levels (a representation change must degrade the projection, not break the check):
//   default            everything
//   -DMUTEX_NO_QUEUE   without the owner-private FIFO member (mutex::_queue)
//   -DMUTEX_NO_PRIVATE public observations only: no mutex::_requests / _queue, no ownership::_ptr ("slot" is "set"/"none")
#include <cocls/mutex.h>
#include <cocls/future.h>
#include <cocls/async.h>
#include "replay_common.h"

#include <optional>
#include <set>

using namespace rp;

#if defined(MUTEX_NO_PRIVATE) && !defined(MUTEX_NO_QUEUE)
#define MUTEX_NO_QUEUE
#endif

#ifndef MUTEX_NO_PRIVATE
struct MProbe : cocls::mutex {
    static auto req_mp() { return &MProbe::_requests; }
#ifndef MUTEX_NO_QUEUE
    static auto queue_mp() { return &MProbe::_queue; }
#endif
    static cocls::awaiter *door() { return doorman(); }
};
struct OProbe : cocls::mutex::ownership {
    static auto ptr_mp() { return &OProbe::_ptr; }
};
#endif

using PM = std::pair<std::string, std::string>;   // party, mutex
struct World;

struct Req;
struct SubAwt : cocls::awaiter {                   // custom awaiter for co_awaiter<mutex>::subscribe(awaiter *)
    explicit SubAwt(Req *r) : cocls::awaiter(&SubAwt::fn, r) {}
    static cocls::suspend_point<void> fn(cocls::awaiter *, void *ctx) noexcept;
};

// one request object per (party, mutex): the awaiter must stay alive until the request is granted
struct Req {
    World *w = nullptr;
    std::string p, m;
    std::optional<cocls::co_awaiter<cocls::mutex>> awt;
    SubAwt sub{this};
    Req() = default;
    Req(const Req &) = delete;
};

struct Cmd { std::string op, m; };

struct Party {
    std::string name, form = "cb", rel = "discard";
    bool co = false, through = false;
    std::coroutine_handle<> h;       // parked waiting for a command
    Cmd cmd;
    bool exited = false;
};

struct World {
    std::map<std::string, std::unique_ptr<cocls::mutex>> mx;
    std::map<std::string, cocls::mutex::ownership> slot;
    std::map<std::string, Party> party;
    std::map<PM, std::string> slot_of, st;
    std::map<std::string, PM> held_in;              // slot id -> whose ownership of which mutex the driver last stored there
    std::map<PM, Req> reqs;
    std::vector<PM> got;
    std::string res = "none", probe = "dtor";
    std::map<std::uint64_t, std::string> node_of;   // awaiter address -> party (learned when the request is published)
    std::string requesting;
    cocls::mutex &m(const std::string &n) { return *mx.at(n); }
    cocls::mutex::ownership &slot_for(const std::string &p, const std::string &mm) { return slot[slot_of.at({p, mm})]; }
};

// the awaiter a party publishes is learned from the successful read-modify-write that pushes it (the driver knows whose
// request is being made); nothing else is done in the hooks
struct Learn : cocls_verif::handler {
    World *w = nullptr;
    void pre(cocls_verif::event &) override {}
    void post(cocls_verif::event &e) override {
#ifndef MUTEX_NO_PRIVATE
        if (!w || w->requesting.empty()) return;
        if (e.op != cocls_verif::op_t::cas && e.op != cocls_verif::op_t::xchg) return;
        if (e.op == cocls_verif::op_t::cas && !e.ok) return;
        if (e.arg == 0 || e.arg == (std::uint64_t) reinterpret_cast<std::uintptr_t>(MProbe::door())) return;
        for (auto &kv : w->mx) if (e.obj == &((*kv.second).*MProbe::req_mp())) w->node_of[e.arg] = w->requesting;
#else
        (void) e;
#endif
    }
    bool wait(cocls_verif::event &, cocls_verif::wait_pred) override { return false; }
};
static Learn g_learn;

static void release_plain(World &w, const std::string &p, const std::string &m);

// party p learns that it owns m: it stores the ownership into its slot (move-assignment: an ownership the slot still holds
// is released by that)
static void granted(World &w, const std::string &p, const std::string &m, cocls::mutex::ownership &&o) {
    w.got.push_back({p, m});
    w.st[{p, m}] = "hold";
    const std::string &sid = w.slot_of.at({p, m});
    auto it = w.held_in.find(sid);
    if (it != w.held_in.end()) w.st[it->second] = "idle";     // storing over an ownership releases it
    w.held_in[sid] = {p, m};
    w.slot[sid] = std::move(o);
}

static cocls::suspend_point<void> on_grant_cb(cocls::awaiter *, void *ctx) noexcept {
    Req *r = static_cast<Req *>(ctx);
    granted(*r->w, r->p, r->m, r->awt->await_resume());
    if (r->w->party[r->p].through) release_plain(*r->w, r->p, r->m);
    return {};
}
cocls::suspend_point<void> SubAwt::fn(cocls::awaiter *me, void *ctx) noexcept { return on_grant_cb(me, ctx); }

static void release_plain(World &w, const std::string &p, const std::string &m) {
    auto &s = w.slot_for(p, m);
    const std::string &rel = w.party[p].rel;
    w.st[{p, m}] = "idle";
    w.held_in.erase(w.slot_of.at({p, m}));
    if (rel == "keep") { auto sp = s.release(); (void) sp.size(); }          // suspend point kept in a variable up to the end of the block
    else if (rel == "reset") s = cocls::mutex::ownership();                 // released by move-assigning an empty ownership over it
    else if (rel == "dtor") { cocls::mutex::ownership last(std::move(s)); } // released by the destructor of `last`
    else if (rel == "twice") { s.release(); s.release(); }                  // release() of a released ownership does nothing
    else s.release();                                                      // "discard" (and "await" outside a coroutine)
}

static void do_try(World &w, const std::string &p, const std::string &m) {
    cocls::mutex::ownership o = w.m(m).try_lock();
    w.res = o ? "true" : "false";
    if (o) granted(w, p, m, std::move(o));
}

struct CmdAw {
    Party &P;
    bool await_ready() const noexcept { return false; }
    void await_suspend(std::coroutine_handle<> h) noexcept { P.h = h; }
    void await_resume() const noexcept {}
};

#define CO_RELEASE(MM)                                                                                   \
    do {                                                                                                 \
        auto &s_ = w.slot_for(P.name, MM);                                                               \
        w.st[{P.name, MM}] = "idle";                                                                     \
        w.held_in.erase(w.slot_of.at({P.name, MM}));                                                     \
        if (P.rel == "await") co_await s_.release();                                                     \
        else if (P.rel == "keep") { auto sp_ = s_.release(); (void) sp_.size(); }                         \
        else if (P.rel == "reset") s_ = cocls::mutex::ownership();                                       \
        else if (P.rel == "dtor") { cocls::mutex::ownership last_(std::move(s_)); }                      \
        else if (P.rel == "twice") { s_.release(); s_.release(); }                                       \
        else s_.release();                                                                               \
    } while (0)

static cocls::async<void> co_main(World &w, Party &P) {
    for (;;) {
        co_await CmdAw{P};
        const Cmd c = P.cmd;
        if (c.op == "exit") break;
        if (c.op == "try") {
            do_try(w, P.name, c.m);
            if (w.res == "true" && P.through) CO_RELEASE(c.m);
        } else if (c.op == "lock") {
            cocls::mutex::ownership o = co_await w.m(c.m).lock();
            granted(w, P.name, c.m, std::move(o));
            if (P.through) CO_RELEASE(c.m);
        } else if (c.op == "release") {
            CO_RELEASE(c.m);
        }
    }
    P.exited = true;
}

static bool command(World &w, Party &P, const std::string &op, const std::string &m) {
    if (!P.h) return false;
    auto h = P.h;
    P.h = nullptr;
    P.cmd = Cmd{op, m};
    cocls::coro_queue::resume(h);      // ordinary code resumes a coroutine: a run queue is installed and flushed before it returns
    return true;
}

#ifndef MUTEX_NO_PRIVATE
static std::string name_of(World &w, cocls::awaiter *n) {
    if (n == nullptr) return "null";
    if (n == MProbe::door()) return "door";
    auto it = w.node_of.find((std::uint64_t) reinterpret_cast<std::uintptr_t>(n));
    return it == w.node_of.end() ? "unknown" : it->second;
}
// the party's name within the mutex the list belongs to; an awaiter published on ANOTHER mutex shows as "p@m"
static std::string local_name(const std::string &nm, const std::string &m) {
    auto at = nm.find('@');
    if (at == std::string::npos) return nm;
    return nm.substr(at + 1) == m ? nm.substr(0, at) : nm;
}
#endif

static J project(World &w) {
    J out = J::map();
    J st = J::map(), co = J::map(), slot = J::map(), got = J::list();
    for (auto &kv : w.party) {
        J row = J::map();
        bool waits = false;
        for (auto &mm : w.mx) {
            const std::string &v = w.st[{kv.first, mm.first}];
            row.set(mm.first, v);
            waits = waits || v == "wait";
        }
        st.set(kv.first, row);
        if (kv.second.co) co.set(kv.first, kv.second.exited ? "done" : kv.second.h ? "cmd" : "lock");
    }
    for (auto &g : w.got) { J e = J::list(); e.push(g.first); e.push(g.second); got.push(e); }
    for (auto &kv : w.slot) {
#ifndef MUTEX_NO_PRIVATE
        cocls::mutex *p = (kv.second.*OProbe::ptr_mp()).get();
        std::string nm = p ? "unknown" : "none";
        for (auto &mm : w.mx) if (mm.second.get() == p) nm = mm.first;
        // the public view must agree with the private one
        if (bool(kv.second) != (p != nullptr) || !kv.second != (p == nullptr)) nm += "?bool";
        slot.set(kv.first, nm);
#else
        slot.set(kv.first, kv.second ? "set" : "none");
#endif
    }
    out.set("st", st);
    out.set("co", co);
    out.set("slot", slot);
    out.set("got", got);
    out.set("res", w.res);
#ifndef MUTEX_NO_PRIVATE
    J req = J::map(), chain = J::map();
    for (auto &mm : w.mx) {
        cocls::awaiter *top = ((*mm.second).*MProbe::req_mp()).verif_peek();
        req.set(mm.first, local_name(name_of(w, top), mm.first));
        J ch = J::list();
        int fuel = 12;
        for (cocls::awaiter *n = top; n && fuel--; n = n->_next) {
            std::string nm = name_of(w, n);
            if (nm == "door") break;
            ch.push(local_name(nm, mm.first));
            if (nm == "unknown") break;
        }
        chain.set(mm.first, ch);
    }
    out.set("req", req);
    out.set("chain", chain);
#ifndef MUTEX_NO_QUEUE
    J queue = J::map();
    for (auto &mm : w.mx) {
        J q = J::list();
        auto walk = [&](auto &head) {      // an intrusive list through _next as the code keeps it today, or a container of awaiter pointers
            using Q = std::remove_reference_t<decltype(head)>;
            if constexpr (std::is_pointer_v<Q>) {
                int fuel = 12;
                for (cocls::awaiter *n = head; n && fuel--; n = n->_next) {
                    std::string nm = name_of(w, n);
                    q.push(local_name(nm, mm.first));
                    if (nm == "unknown" || nm == "door") break;
                }
            } else {
                for (auto it = head.begin(); it != head.end(); ++it) q.push(local_name(name_of(w, *it), mm.first));
            }
        };
        walk((*mm.second).*MProbe::queue_mp());
        queue.set(mm.first, q);
    }
    out.set("queue", queue);
#endif
#endif
    return out;
}

static void run(const Scenario &sc, Reporter &rep) {
    World *pw = new World();     // leaked when the scenario fails: the real objects may be inconsistent then
    World &w = *pw;
    for (auto &x : sc.hdr.at("M").l) w.mx[x.as_str()] = std::make_unique<cocls::mutex>();
    w.probe = sc.hdr.at("probe").as_str("dtor");
    std::set<std::string> through;
    for (auto &x : sc.hdr.at("through").l) through.insert(x.as_str());
    for (auto &kv : sc.hdr.at("P").m) {
        Party &P = w.party[kv.first];
        P.name = kv.first;
        P.co = kv.second.as_str() == "co";
        P.form = sc.hdr.at("form").at(kv.first).as_str("cb");
        P.rel = sc.hdr.at("rel").at(kv.first).as_str("discard");
        P.through = through.count(kv.first) != 0;
        for (auto &mm : w.mx) {
            std::string sid = sc.hdr.at("slot").at(kv.first).at(mm.first).as_str(kv.first + "@" + mm.first);
            w.slot_of[{kv.first, mm.first}] = sid;
            w.slot[sid];
            w.st[{kv.first, mm.first}] = "idle";
            Req &r = w.reqs[{kv.first, mm.first}];
            r.w = &w; r.p = kv.first; r.m = mm.first;
        }
    }
    g_learn.w = &w;
    cocls_verif::g_handler.store(&g_learn, std::memory_order_release);
    for (auto &kv : w.party) if (kv.second.co) co_main(w, kv.second).detach();

    bool bad = false;
    for (std::size_t k = 0; k < sc.steps.size() && !bad; k++) {
        const Step &s = sc.steps[k];
        w.got.clear();
        w.res = "none";
        if (s.name == "Probe") {
            cocls::mutex::ownership o = w.m(s.sarg(0)).try_lock();
            w.res = o ? "true" : "false";
            if (w.probe == "release") o.release();
            // otherwise released by the destructor of `o`
        } else {
            const std::string &p = s.sarg(0), &m = s.sarg(1);
            auto pit = w.party.find(p);
            if (pit == w.party.end() || !w.mx.count(m)) { rep.error(k, "unknown party / mutex"); bad = true; break; }
            Party &P = pit->second;
            const std::string op = s.name == "Try" ? "try" : s.name == "Lock" ? "lock" : s.name == "Release" ? "release" : s.name == "Block" ? "block"
                                   : s.name == "Ask" ? "ask" : s.name == "Suspend" ? "suspend" : "";
            if (op.empty()) { rep.error(k, "unknown action"); bad = true; break; }
            if (op == "lock" || op == "suspend") { w.requesting = p + "@" + m; w.st[{p, m}] = "wait"; }
            if (P.co) {
                if (op == "block" || op == "ask" || op == "suspend") { rep.error(k, "a coroutine party does not block"); bad = true; break; }
                if (!command(w, P, op, m)) { rep.diverge(k, "the coroutine of party " + p + " is not waiting for a command got=" + project(w).dump()); bad = true; break; }
            } else if (op == "try") {
                do_try(w, p, m);
                if (w.res == "true" && P.through) release_plain(w, p, m);
            } else if (op == "lock") {
                Req &r = w.reqs[{p, m}];
                r.awt.emplace(w.m(m).lock());
                bool waits = !r.awt->await_ready() && (P.form == "sub" ? r.awt->subscribe(&r.sub) : r.awt->await_suspend(&on_grant_cb, &r));
                if (!waits) on_grant_cb(&*r.awt, &r);
            } else if (op == "ask") {
                // the request as the two calls it consists of: await_ready() now, await_suspend() / subscribe() in a later step
                Req &r = w.reqs[{p, m}];
                r.awt.emplace(w.m(m).lock());
                if (r.awt->await_ready()) on_grant_cb(&*r.awt, &r); else w.st[{p, m}] = "asked";
            } else if (op == "suspend") {
                Req &r = w.reqs[{p, m}];
                bool waits = P.form == "sub" ? r.awt->subscribe(&r.sub) : r.awt->await_suspend(&on_grant_cb, &r);
                if (!waits) on_grant_cb(&*r.awt, &r);      // not registered: the caller owns the mutex, nobody else tells it
            } else if (op == "block") {
                if (P.form == "sub") {
                    cocls::mutex::ownership o = w.m(m).lock().wait();
                    granted(w, p, m, std::move(o));
                } else {
                    cocls::mutex::ownership o(w.m(m).lock());
                    granted(w, p, m, std::move(o));
                }
                if (P.through) release_plain(w, p, m);
            } else {
                release_plain(w, p, m);
            }
            w.requesting.clear();
        }
        if (!rep.check(k, project(w))) bad = true;
    }
    if (!bad) {
        // scope exit: every ownership still held is released (any order is legal; the slots in name order); every pending
        // request must then have been granted, every mutex must be lockable again (C08) and every coroutine be idle
        for (int round = 0; round < 64; round++) {
            bool any = false;
            for (auto &kv : w.slot) if (kv.second) { any = true; w.got.clear(); kv.second.release(); }
            if (!any) break;
        }
        std::size_t last = sc.steps.empty() ? 0 : sc.steps.size() - 1;
        for (auto &kv : w.st) {
            if (bad) break;
            if (kv.second == "wait") { rep.diverge(last, "request " + kv.first.first + "@" + kv.first.second + " never granted although every ownership was released"); bad = true; }
        }
        for (auto &mm : w.mx) {
            if (bad) break;
            cocls::mutex::ownership o = mm.second->try_lock();
            if (!o) { rep.diverge(last, "mutex " + mm.first + " cannot be locked after every ownership was released"); bad = true; }
        }
        for (auto &kv : w.party) {
            if (bad || !kv.second.co) continue;
            if (!command(w, kv.second, "exit", "") || !kv.second.exited) { rep.diverge(last, "coroutine of party " + kv.first + " is not idle at the end"); bad = true; }
        }
    }
    cocls_verif::g_handler.store(nullptr, std::memory_order_release);
    g_learn.w = nullptr;
    if (!bad) delete pw;
}

int main() {
    return replay_main(std::cin, run);
}
