// storage_replay.cpp -- replays behaviours of spec/Storage/Storage.tla on the real cocls storage
// policies (coro_storage.h, alloca_storage.h, with_allocator.h).
//
// Scripted coroutines of three frame-size classes (bodies with local arrays of 16 / 256 / 1024 bytes
// that suspend until told to complete) are created through
//     cocls::with_allocator<traced<Policy>, cocls::async<void>>
// where traced<S> derives from S and reports alloc(sz) -> ptr / dealloc(ptr, sz) to the harness.
// The frame sizes are whatever the compiler chose: they are observed once per policy (calibration)
// and mapped to the abstract sizes 100 / 200 / 300 of the specification; anything the policy adds
// (owner pointer, flag byte, attached object) is reported in real bytes on top (e.g. 208).
//
// Global operator new/delete are replaced.  Allocations made inside library calls (lib_scope) are
// served from a bounded arena of slots with the specification's rule "lowest free slot", so the block
// a frame got is comparable with the specification (slot number, no raw addresses) and address reuse
// is deterministic.  Accounting is rp::alloc_stats-compatible (alloc_pause, cocls_verif::internal_allocs
// are honoured); in addition the arena knows the requested size of every block (LargeEnough), detects
// double frees, writes behind a block (guard bytes; exact with ASan: the tail is poisoned) and leaks.
//
// header: {"policy":"default"|"reusable"|"mtsafe"|"stack"|"placement"|"buffer",
//          "ex":bool    the policy is the BASE of cocls::promise_extra_storage<Extra, rec<policy>>: rec<> records the sizes
//                       the base's alloc / dealloc are called with (stack / placement / buffer get their constructor
//                       argument from a default constructible derived class of the harness),
//          "copy":bool  placement / buffer / stack storage objects only refer to memory: every other creation goes
//                       through a copy of the storage object,
//          "mode":"seq"|"mt", "grain":"call"|"atomic"|"alloc", "kill":"finish"|"destroy",
//          "init":<abstract size>, "nslots":n,
//          "boff":0|8   buffer, placement: the address (mod 16) at which the memory of the caller begins: the first element
//                       of the vector (its allocator puts every block of the vector there; the bytes in front of it belong
//                       to somebody else), the buffer handed to placement_alloc,
//          "fam":0..3   shape family of the coroutines: 0 bodies with local arrays of 16/256/1024 bytes, 1 the same
//                       + 8 bytes (the other residue of the frame size mod 16), 2/3 the library's callback_await_coro
//                       created through callback_await_alloc<Policy, future<int>&> with callbacks of those sizes,
//          "obs":"full"|"alloc"   alloc: reduced projection {"bad","dels","live","news","where":[..]} (used by C20)}
// steps:  Create(t,c) CreateB(t,c) Complete(t,f) New(t) Del(t) Store(t) Teardown
//         Prepare CreateP(t,c,i)    stack_storage: a storage constructed and given its alloca block ahead of use
//         CreateThrow(t,c)          the factory of the attached object throws (always with the plain bodies)
//         CreateFail(t,c)           the operator new call made by the policy's alloc throws std::bad_alloc (plain bodies)
//         DtorBegin(t,f) .. DtorEnd(t,f)   frame f completes; the destructor of its attached object executes the steps in
//                                   between (creations and completions of other frames), the state is compared inside
//                                   the destructor (DtorBegin, every step in between) and after the completion (DtorEnd)
//         NewObj MoveCtor MoveAssign(s,d) Drop(o)      a second storage object; construction / assignment by move
//         OwnerResize(k) OwnerShrink OwnerClear OwnerMoveOut OwnerSwap(k)   what the owner of the buffer does to it
// projection: {"bad":[...harness-side check failures, expected empty...],"busy","dels","fr":[{..}],
//              "heap":[size per slot],"news","objs":[{"st","ptr","cap","inv","fac"} x2],"pend":{t:..},"torn",
//              "prep":[size each prepared stack storage asked for],"nthrow":factory exceptions that reached the creator}
// -DSTORAGE_NO_STACK_PRIVATE: build without the probes of stack_storage's private members (when their
// representation changed): the cross-check of its bookkeeping against the harness's own is dropped
//   fr[i]: c, o (storage object), live, where, slot, blk (size of the area the frame lies in: heap block, elements of
//          the buffer's vector, alloca block, placement buffer), at (address of the frame relative to the first byte of
//          that area), tr (what the base keeps behind the frame), eo (attached object: "obj", "dying" while its
//          destructor runs), asz (size the base's alloc got), dz ("live" | "same" | "alloc:<a>/dealloc:<d>": set as
//          soon as the base policy's dealloc has been called), ct, dt
// Memory a policy returns that cannot hold the frame (null, released, too small) is recorded in `bad` and the
// frame is put into memory of the harness instead, so that the process lives to report it.
//
// mode "mt": two real threads under the controlled scheduler (vsched): the instrumented atomic
// operations on _busy are scheduling points; with grain "alloc" every operator new / delete call made
// by the storage is one as well.
//
// storage_replay --probe-grow   prints the order in which reusable_storage::alloc grows
// storage_replay --sizes        prints the observed frame sizes
// storage_replay --probe-throw  does promise_extra_storage::alloc give the block back when the factory throws?
#include <cocls/future.h>
#include <cocls/async.h>
#include <cocls/coro_storage.h>
#include <cocls/alloca_storage.h>
#include <cocls/with_allocator.h>
#include <cocls/callback_awaiter.h>
#include <cocls_verif/vsched.h>
#include "replay_common.h"

#include <alloca.h>
#include <array>
#include <deque>
#include <optional>

#if defined(__SANITIZE_ADDRESS__)
#include <sanitizer/asan_interface.h>
#define ARENA_POISON(p, n) __asan_poison_memory_region((p), (n))
#define ARENA_UNPOISON(p, n) __asan_unpoison_memory_region((p), (n))
#else
#define ARENA_POISON(p, n) ((void) 0)
#define ARENA_UNPOISON(p, n) ((void) 0)
#endif

using namespace rp;
using cocls_verif::vsched;
using cocls_verif::op_t;

// ---------------------------------------------------------------------------------------------
// arena: the heap the library sees
// ---------------------------------------------------------------------------------------------
namespace arena {
constexpr int NSLOT = 8;
constexpr std::size_t SLOTSZ = 4096;
alignas(64) static unsigned char mem[NSLOT * SLOTSZ];
static std::size_t req[NSLOT];   // 0 = free, otherwise requested size
static std::size_t lead[NSLOT];  // the block begins that many bytes behind the first byte of its slot (the buffer's vector
                                 // at an address that is no multiple of 16); the bytes in front are guarded like the tail
static std::size_t want_lead = 0;   // lead of the next block taken (set by the allocator of the buffer's vector)
static long news = 0, dels = 0, dblfree = 0, overrun = 0, badptr = 0, exhausted = 0;
static bool alloc_marks = false;           // operator new/delete calls are scheduling points
static bool fail_next = false;             // the next operator new call of the library throws std::bad_alloc (CreateFail)
static thread_local int lib_depth = 0;     // >0: inside a library call
static char events[64];                    // 'N' / 'D' in order (probe)
static int nevents = 0;
static bool poisoned_init = false;

inline bool attributed() { return lib_depth > 0 && !alloc_stats::paused && !cocls_verif::internal_allocs; }
inline int slot_of(const void *p) {
    auto c = static_cast<const unsigned char *>(p);
    if (c < mem || c >= mem + sizeof(mem)) return 0;
    return (int) ((c - mem) / SLOTSZ) + 1;
}
inline unsigned char *base(int s) { return mem + (std::size_t) (s - 1) * SLOTSZ; }
inline unsigned char *start(int s) { return base(s) + lead[s - 1]; }      // first byte of the block in slot s
inline void note(char c) { if (nevents < 63) events[nevents++] = c; }

inline void *take(std::size_t sz) {
    if (!poisoned_init) { poisoned_init = true; ARENA_POISON(mem, sizeof(mem)); }
    if (sz == 0) sz = 1;
    std::size_t ld = want_lead;
    want_lead = 0;
    int s = 0;
    for (int i = 0; i < NSLOT; i++) if (req[i] == 0) { s = i + 1; break; }
    if (s == 0 || ld + sz > SLOTSZ) {
        exhausted++;
        void *p = malloc(sz);
        if (!p) throw std::bad_alloc();
        return p;
    }
    unsigned char *b = base(s), *p = b + ld;
    ARENA_UNPOISON(b, SLOTSZ);
    memset(b, 0xA5, ld);
    memset(p, 0xCD, sz);
    memset(p + sz, 0xA5, SLOTSZ - ld - sz);
    ARENA_POISON(b, ld);
    ARENA_POISON(p + sz, SLOTSZ - ld - sz);
    req[s - 1] = sz;
    lead[s - 1] = ld;
    news++;
    alloc_stats::g_news.fetch_add(1, std::memory_order_relaxed);
    note('N');
    return p;
}

inline void release(void *ptr) {
    int s = slot_of(ptr);
    dels++;
    alloc_stats::g_deletes.fetch_add(1, std::memory_order_relaxed);
    note('D');
    if (req[s - 1] == 0) { if (ptr == base(s) || ptr == start(s)) dblfree++; else badptr++; return; }
    if (ptr != start(s)) { badptr++; return; }
    unsigned char *p = base(s);
    std::size_t sz = req[s - 1], ld = lead[s - 1];
    ARENA_UNPOISON(p, SLOTSZ);
    for (std::size_t i = 0; i < SLOTSZ; i++) if ((i < ld || i >= ld + sz) && p[i] != 0xA5) { overrun++; break; }
    memset(p, 0xDD, SLOTSZ);
    ARENA_POISON(p, SLOTSZ);
    req[s - 1] = 0;
}

inline void reset() {
    for (int i = 0; i < NSLOT; i++) if (req[i]) { ARENA_UNPOISON(base(i + 1), SLOTSZ); memset(base(i + 1), 0xDD, SLOTSZ); ARENA_POISON(base(i + 1), SLOTSZ); req[i] = 0; }
    for (int i = 0; i < NSLOT; i++) lead[i] = 0;
    want_lead = 0;
    fail_next = false;
    news = dels = dblfree = overrun = badptr = exhausted = 0;
    nevents = 0;
}
inline int used() { int n = 0; for (int i = 0; i < NSLOT; i++) if (req[i]) n++; return n; }
}  // namespace arena

struct lib_scope {
    lib_scope() { arena::lib_depth++; }
    ~lib_scope() { arena::lib_depth--; }
};

void *operator new(std::size_t sz) {
    if (!arena::attributed()) {
        void *p = malloc(sz ? sz : 1);
        if (!p) throw std::bad_alloc();
        return p;
    }
    if (arena::alloc_marks && vsched::self()) vsched::mark("new");
    if (arena::fail_next) { arena::fail_next = false; arena::want_lead = 0; throw std::bad_alloc(); }
    return arena::take(sz);
}
void *operator new[](std::size_t sz) { return operator new(sz); }
void operator delete(void *p) noexcept {
    if (!p) return;
    if (!arena::slot_of(p)) {
        // inside a library call every block comes from the arena: anything else is not a heap block
        // (e.g. an alloca buffer taken for a heap fallback); reported, not handed to free()
        if (arena::attributed()) { arena::badptr++; return; }
        free(p);
        return;
    }
    if (arena::alloc_marks && vsched::self() && arena::lib_depth > 0) vsched::mark("delete");
    arena::release(p);
}
void operator delete[](void *p) noexcept { operator delete(p); }
void operator delete(void *p, std::size_t) noexcept { operator delete(p); }
void operator delete[](void *p, std::size_t) noexcept { operator delete(p); }

// ---------------------------------------------------------------------------------------------
// tracing wrapper around a storage policy
// ---------------------------------------------------------------------------------------------
struct TraceHook {
    void *ctx = nullptr;
    // returns nullptr, or memory of the harness to be used INSTEAD of p when p is not usable memory for sz bytes
    // (null, released, too small): the fault is on record, the process stays alive to report it
    void *(*on_alloc)(void *ctx, void *p, std::size_t sz) = nullptr;
    // returns the pointer to forward to the policy's dealloc, nullptr: do not forward (frame had been relocated);
    // *tok: handed to on_dealloc_done when the policy's dealloc has returned
    void *(*on_dealloc)(void *ctx, void *p, std::size_t sz, void **tok) = nullptr;
    void (*on_dealloc_done)(void *ctx, void *tok) = nullptr;
};
static TraceHook g_hook;
static const bool g_trace = getenv("STORAGE_TRACE") != nullptr;

template <typename S>
struct traced : S {
    using S::S;
    void *alloc(std::size_t sz) {
        void *p = S::alloc(sz);
        if (g_trace) fprintf(stderr, "  alloc(%zu) -> slot %d\n", sz, arena::slot_of(p));
        if (g_hook.ctx) if (void *q = g_hook.on_alloc(g_hook.ctx, p, sz)) return q;
        return p;
    }
    static void dealloc(void *p, std::size_t sz) {
        if (g_trace) fprintf(stderr, "  dealloc(slot %d, %zu)\n", arena::slot_of(p), sz);
        void *hctx = g_hook.ctx, *tok = nullptr;
        if (hctx) p = g_hook.on_dealloc(hctx, p, sz, &tok);
        if (p) S::dealloc(p, sz);
        if (hctx && hctx == g_hook.ctx) g_hook.on_dealloc_done(hctx, tok);
    }
};

// recording wrapper around the BASE policy of promise_extra_storage<T, Base>: what size does the base's alloc
// get, and does its dealloc get the same?
struct RecHook {
    void *ctx = nullptr;
    void *(*on_alloc)(void *ctx, void *p, std::size_t sz) = nullptr;           // like TraceHook::on_alloc
    bool (*on_dealloc)(void *ctx, void *p, std::size_t &sz) = nullptr;         // sets the size to forward; false: do not forward
};
static RecHook g_rec;
template <typename B>
struct rec : B {
    using B::B;
    void *alloc(std::size_t sz) {
        void *p = B::alloc(sz);
        if (g_rec.ctx) if (void *q = g_rec.on_alloc(g_rec.ctx, p, sz)) return q;
        return p;
    }
    static void dealloc(void *p, std::size_t sz) {
        // a size that differs from the one alloc got is recorded; the base is then given the right one, so that
        // the process lives to report the difference
        if (g_rec.ctx) if (!g_rec.on_dealloc(g_rec.ctx, p, sz)) return;
        B::dealloc(p, sz);
    }
};

// ---------------------------------------------------------------------------------------------
// the object attached by promise_extra_storage<Extra>
// ---------------------------------------------------------------------------------------------
namespace ereg {
struct Ev { bool ctor; const void *addr; };
static Ev ev[256];
static long n = 0, bad_dtor = 0, over_alive = 0, damaged = 0;
struct Obj { const void *addr; bool alive; bool dying; };
static Obj obj[64];
static int nobj = 0;
// the destructor of an attached object is code of the user: the scenario may have it execute steps
static void *dtor_ctx = nullptr;
static void (*on_dtor)(void *ctx, const void *addr) = nullptr;
inline bool alive(const void *a) { for (int i = 0; i < nobj; i++) if (obj[i].alive && obj[i].addr == a) return true; return false; }
inline bool dying(const void *a) { for (int i = 0; i < nobj; i++) if (obj[i].alive && obj[i].addr == a) return obj[i].dying; return false; }
inline void ctor(const void *a) {
    if (n < 256) ev[n++] = Ev{true, a};
    if (alive(a)) over_alive++;        // constructed on top of an object that is alive (or still being destroyed)
    for (int i = 0; i < nobj; i++) if (!obj[i].alive) { obj[i] = Obj{a, true, false}; return; }
    if (nobj < 64) obj[nobj++] = Obj{a, true, false};
}
inline void dtor_begin(const void *a) {
    for (int i = 0; i < nobj; i++) if (obj[i].alive && obj[i].addr == a && !obj[i].dying) { obj[i].dying = true; return; }
}
inline void dtor(const void *a) {      // the destructor has done its work
    if (n < 256) ev[n++] = Ev{false, a};
    for (int i = 0; i < nobj; i++) if (obj[i].alive && obj[i].addr == a) { obj[i].alive = false; return; }
    bad_dtor++;    // destroyed twice, or something that was never constructed
}
inline int nalive() { int k = 0; for (int i = 0; i < nobj; i++) if (obj[i].alive) k++; return k; }
inline void reset() { n = 0; bad_dtor = over_alive = damaged = 0; nobj = 0; }
}  // namespace ereg

struct Extra {
    static constexpr std::uint32_t MAGIC = 0xE17A0B1Eu;
    std::uint32_t magic, serial, touch, pad;
    explicit Extra(std::uint32_t s) : magic(MAGIC), serial(s), touch(0), pad(0) { ereg::ctor(this); }
    Extra(const Extra &o) : magic(o.magic), serial(o.serial), touch(o.touch), pad(0) { ereg::ctor(this); }
    ~Extra() {
        ereg::dtor_begin(this);
        std::uint32_t m = magic, s = serial, t = touch;
        if (ereg::on_dtor) ereg::on_dtor(ereg::dtor_ctx, this);       // the scripted part of the destructor
        if (magic != m || serial != s || touch != t) ereg::damaged++; // the object is this frame's until it is gone
        ereg::dtor(this);
        magic = 0xDEADDEADu;
    }
};
static_assert(sizeof(Extra) == 16, "ExtraSz of Storage.tla");
static_assert(sizeof(void *) == 8, "BaseTrailer of Storage.tla");

// ---------------------------------------------------------------------------------------------
// scripted coroutines
// ---------------------------------------------------------------------------------------------
struct FrameRec {
    int id = 0, cls = 0, creator = 0;
    unsigned char *ptr = nullptr;
    std::size_t sz = 0;
    bool live = false, dead = false;
    bool dying = false;               // extra: promise_extra_storage::dealloc is in progress (the frame stays live until it returns)
    unsigned char *buf = nullptr;     // the local array inside the frame
    std::size_t n = 0;
    bool started = false, finished = false, canary_ok = true;
    std::coroutine_handle<> h;
    unsigned char *abuf = nullptr;    // stack policy: the alloca buffer handed to this frame's storage
    std::size_t asize = 0;
    unsigned char *guard = nullptr;
    long ev_begin = 0, ev_end = -1;   // extra: window of ereg events belonging to this frame
    bool usable = true;
    std::uint32_t serial = 0;
    int cidx = 0;                     // index of the creation (FrameRef / future / promise) it came from
    int o = 1;                        // storage object it was created on
    int prep = 0;                     // stack: index of the storage prepared ahead it was created on (0: one of its own)
    unsigned char *orig = nullptr;    // what the policy returned, when the harness had to relocate the frame
    bool base_reloc = false;          // ... already below the attached-object layer
    std::size_t basz = 0, bdsz = 0;   // sizes the base policy's alloc / dealloc were called with
    bool bdealloc = false;
};
struct FrameRef { FrameRec *r = nullptr; int cls = 0; int thread = 0; int idx = 0; int o = 1; };
struct FactoryError {};              // what the factory of the attached object throws when told to

inline unsigned char pat(int id, std::size_t i) { return (unsigned char) (id * 41 + i * 7 + 3); }

struct Gate {
    FrameRec &r;
    bool await_ready() const noexcept { return false; }
    void await_suspend(std::coroutine_handle<> h) noexcept { r.h = h; }
    void await_resume() const noexcept {}
};

template <std::size_t N, typename A>
static cocls::with_allocator<A, cocls::async<void>> body(A &, FrameRef &ref) {
    FrameRec &r = *ref.r;
    unsigned char buf[N];
    r.buf = buf;
    r.n = N;
    for (std::size_t i = 0; i < N; i++) buf[i] = pat(r.id, i);   // canary, written at creation
    r.started = true;
    co_await Gate{r};
    bool ok = true;
    for (std::size_t i = 0; i < N; i++) ok &= buf[i] == pat(r.id, i);   // checked at completion
    r.canary_ok = ok;
    r.finished = true;
}

// Shape families (header "fam"):
//   0  bodies with local arrays of 16 / 256 / 1024 bytes
//   1  the same + 8 bytes: the other residue of the frame size modulo 16
//   2  the library's own callback_await_coro, created through cocls::callback_await_alloc<Policy, future<int>&>
//      (the with_allocator path scheduler.h uses with stack_storage) with a callback object carrying
//      16 / 256 / 1024 bytes; the coroutine awaits a future and is completed by resolving it
//   3  the same + 8 bytes
constexpr int NFAM = 4;
constexpr std::size_t N1 = 16, N2 = 256, N3 = 1024;

// HALF: only family 0 of the bodies and family 3 of the callbacks are instantiated (the attached-object layer is
// replayed with these two: one frame size of each residue mod 16, both creation paths; halves the build)
template <typename A, bool HALF = false>
static cocls::with_allocator<A, cocls::async<void>> make_body(int fam, int c, A &st, FrameRef &ref) {
    if constexpr (HALF) {
        switch (c) {
            case 1: return body<N1>(st, ref);
            case 2: return body<N2>(st, ref);
            default: return body<N3>(st, ref);
        }
    } else {
        switch (c * 2 + (fam & 1)) {
            case 2: return body<N1>(st, ref);
            case 3: return body<N1 + 8>(st, ref);
            case 4: return body<N2>(st, ref);
            case 5: return body<N2 + 8>(st, ref);
            case 6: return body<N3>(st, ref);
            default: return body<N3 + 8>(st, ref);
        }
    }
}

// callback of callback_await_alloc: the copy that ends up inside the coroutine frame carries the canary
template <std::size_t N>
struct CbFn {
    FrameRef *ref;
    unsigned char payload[N];
    explicit CbFn(FrameRef *r) : ref(r) { memset(payload, 0, N); }
    CbFn(const CbFn &o) : ref(o.ref) {
        memcpy(payload, o.payload, N);
        if (ref && ref->r) {
            FrameRec &r = *ref->r;
            auto me = reinterpret_cast<unsigned char *>(this);
            if (me >= r.ptr && me + sizeof(*this) <= r.ptr + r.sz) {      // this copy lives in the frame
                for (std::size_t i = 0; i < N; i++) payload[i] = pat(r.id, i);
                r.buf = payload;
                r.n = N;
                r.started = true;
            }
        }
    }
    void operator()(cocls::await_result<int> res) {
        if (!ref || !ref->r) return;
        FrameRec &r = *ref->r;
        bool ok = static_cast<bool>(res) && r.buf == payload;
        for (std::size_t i = 0; i < N; i++) ok &= payload[i] == pat(r.id, i);
        r.canary_ok = ok;
        r.finished = true;
    }
};

template <typename A, bool HALF = false>
static void make_cb(int fam, int c, A &st, FrameRef &ref, cocls::future<int> &fut) {
    using Awt = cocls::future<int> &;
    if constexpr (HALF) {
        switch (c) {
            case 1: cocls::callback_await_alloc<A, Awt>(st, CbFn<N1 + 8>(&ref), fut); break;
            case 2: cocls::callback_await_alloc<A, Awt>(st, CbFn<N2 + 8>(&ref), fut); break;
            default: cocls::callback_await_alloc<A, Awt>(st, CbFn<N3 + 8>(&ref), fut); break;
        }
    } else
    switch (c * 2 + (fam & 1)) {
        case 2: cocls::callback_await_alloc<A, Awt>(st, CbFn<N1>(&ref), fut); break;
        case 3: cocls::callback_await_alloc<A, Awt>(st, CbFn<N1 + 8>(&ref), fut); break;
        case 4: cocls::callback_await_alloc<A, Awt>(st, CbFn<N2>(&ref), fut); break;
        case 5: cocls::callback_await_alloc<A, Awt>(st, CbFn<N2 + 8>(&ref), fut); break;
        case 6: cocls::callback_await_alloc<A, Awt>(st, CbFn<N3>(&ref), fut); break;
        default: cocls::callback_await_alloc<A, Awt>(st, CbFn<N3 + 8>(&ref), fut); break;
    }
}

// the lazily constructed thread-local ready queue (a std::deque) is not an allocation of any storage
static void warm_thread() { (void) cocls::coro_queue::queue_impl::instance._queue.size(); }

// ---------------------------------------------------------------------------------------------
// frame sizes chosen by the compiler for the body shapes: observed once, through a policy of the
// harness (no library policy is involved: a broken policy must not break the calibration)
// ---------------------------------------------------------------------------------------------
struct calib_storage {
    static inline std::size_t last = 0;
    void *alloc(std::size_t sz) { last = sz; return malloc(sz); }
    static void dealloc(void *p, std::size_t) { free(p); }
};
static std::size_t FF[NFAM][4] = {};
static std::size_t *F = FF[0];      // the family of the running scenario

static void calibrate() {
    if (FF[0][1]) return;
    warm_thread();
    for (int fam = 0; fam < NFAM; fam++) {
        for (int c = 1; c <= 3; c++) {
            calib_storage cs;
            FrameRef ref;
            calib_storage::last = 0;
            if (fam < 2) {
                auto co = make_body<calib_storage>(fam, c, cs, ref);      // created and destroyed unstarted
            } else {
                cocls::future<int> fut;
                cocls::promise<int> prom = fut.get_promise();
                make_cb<calib_storage>(fam, c, cs, ref, fut);
                prom(0);                                                  // completes and frees the coroutine
            }
            FF[fam][c] = calib_storage::last;
        }
        std::size_t *f = FF[fam];
        // classes 100 bytes and (a std::vector doubles when it grows) a factor 2 apart, multiples of the buffer's item
        if (!(f[1] >= N1 && f[1] + 100 <= f[2] && f[2] + 100 <= f[3] && f[3] + 100 <= arena::SLOTSZ &&
              f[2] >= 2 * (f[1] + 32) && f[3] >= 2 * (f[2] + 32) && f[1] % 8 == 0 && f[2] % 8 == 0 && f[3] % 8 == 0)) {
            fprintf(stderr, "frame sizes %zu %zu %zu of family %d cannot be classified\n", f[1], f[2], f[3], fam);
            exit(3);
        }
    }
}

// ---------------------------------------------------------------------------------------------
// policies
// ---------------------------------------------------------------------------------------------
enum class Pol { def, reusable, mtsafe, stack, placement, buffer };
// The caller's buffer: a vector whose allocator places the elements g_buf_off bytes behind a 16-byte boundary (header
// "boff"; what vectors with an allocator of the user, pmr vectors in an arena, in-object buffers do) and gives the vector
// exactly the bytes it asks for: the bytes in front of and behind them are not the buffer's.
static std::size_t g_buf_off = 0;
template <typename T>
struct OffAlloc {
    using value_type = T;
    OffAlloc() = default;
    template <typename U> OffAlloc(const OffAlloc<U> &) {}
    T *allocate(std::size_t n) {
        if (arena::attributed()) arena::want_lead = g_buf_off;
        return static_cast<T *>(::operator new(n * sizeof(T)));
    }
    void deallocate(T *p, std::size_t) { ::operator delete(static_cast<void *>(p)); }
    template <typename U> bool operator==(const OffAlloc<U> &) const { return true; }
};
// items of 16 bytes: half of the frame sizes (those that are 8 mod 16) need the rounding up to whole items
struct BufItem { std::uint64_t w[2]; };
using Buf = std::vector<BufItem, OffAlloc<BufItem>>;

// promise_extra_storage<T, Base> default-constructs its base: the policies that need a constructor argument are
// given one by a derived class of the harness (what a user of the library would write)
struct adapt {
    static inline Buf *buf = nullptr;
    static inline void *place = nullptr;
    static inline std::size_t *state = nullptr;
};
struct buffer_base : cocls::reusable_buffer_storage<Buf> { buffer_base() : cocls::reusable_buffer_storage<Buf>(*adapt::buf) {} };
struct placement_base : cocls::placement_alloc { placement_base() : cocls::placement_alloc(adapt::place) {} };
struct stack_base : cocls::stack_storage { stack_base() : cocls::stack_storage(*adapt::state) {} };

template <Pol P> struct PB;    // L: the library's policy; X: default constructible, as base of the attached-object layer
template <> struct PB<Pol::def> { using L = cocls::default_storage; using X = L; static constexpr std::size_t trailer = 0; };
template <> struct PB<Pol::reusable> { using L = cocls::reusable_storage; using X = L; static constexpr std::size_t trailer = 0; };
template <> struct PB<Pol::mtsafe> { using L = cocls::reusable_storage_mtsafe; using X = L; static constexpr std::size_t trailer = sizeof(void *); };
template <> struct PB<Pol::stack> { using L = cocls::stack_storage; using X = stack_base; static constexpr std::size_t trailer = 1; };
template <> struct PB<Pol::placement> { using L = cocls::placement_alloc; using X = placement_base; static constexpr std::size_t trailer = 0; };
template <> struct PB<Pol::buffer> { using L = cocls::reusable_buffer_storage<Buf>; using X = buffer_base; static constexpr std::size_t trailer = 0; };

template <Pol P, bool EX> struct PT { using S = typename PB<P>::L; };
template <Pol P> struct PT<P, true> { using S = cocls::promise_extra_storage<Extra, rec<typename PB<P>::X>>; };

// protected bookkeeping through derived probes
struct RProbe : cocls::reusable_storage {
    static auto ptr_mp() { return &RProbe::_ptr; }
    static auto cap_mp() { return &RProbe::_capacity; }
};
struct MProbe : cocls::reusable_storage_mtsafe {
    static auto busy_mp() { return &MProbe::_busy; }
};
#ifndef STORAGE_NO_STACK_PRIVATE
struct SProbe : cocls::stack_storage {
    static auto asize_mp() { return &SProbe::_alloc_size; }
    static auto aptr_mp() { return &SProbe::_alloc_ptr; }
};
#endif

struct Cmd { enum K { none, create, complete, quit } k = none; int c = 0; int f = 0; };

// bytes behind every alloca block handed to a stack_storage (the stack grows downwards: they are allocated first):
// larger than any frame, so that whatever a broken policy writes behind the block lands here and is reported
constexpr std::size_t GUARD = 2048;

alignas(64) static unsigned char g_emergency[16][arena::SLOTSZ];    // where frames go whose memory is unusable

template <Pol P, bool EX>
struct World {
    using S = typename PT<P, EX>::S;
    using A = traced<S>;
    static constexpr std::size_t extra_sz = EX ? sizeof(Extra) : 0;
    static constexpr std::size_t trailer = extra_sz + PB<P>::trailer;     // everything behind the frame
    static constexpr bool movable = P == Pol::reusable || (P == Pol::def && EX);   // Movable of Storage.tla
    static constexpr bool copyable = !EX && (P == Pol::placement || P == Pol::buffer || P == Pol::stack);

    std::unique_ptr<A> stor[2];                 // the storage objects (the second one: reusable_storage only)
    std::string ost[2] = {"live", "none"};
    unsigned char *invptr[2] = {nullptr, nullptr};   // extra: value `inventory` had when it was set / moved in ...
    int invid[2] = {0, 0};                           // ... and the frame it designated then
    std::unique_ptr<A> stor_copy;               // placement / buffer: a copy of the storage object, used alternately
    bool use_copy = false;
    std::deque<A> stack_storages;               // stack: one storage object per call (as scheduler.h does)
    struct PrepRec { A *st; unsigned char *ab; std::size_t asz; unsigned char *guard; };
    std::vector<PrepRec> preps;                 // stack: storages prepared ahead of their use
    A *last_stack_obj = nullptr;                // stack: the storage object of the newest frame
    bool throw_next = false;                    // the factory throws at its next call
    int nthrown = 0;                            // FactoryError caught by the creator
    std::size_t state = 0;                      // stack: the shared size_t
    unsigned char *cur_abuf = nullptr;          // stack: buffer of the creation in progress
    std::size_t cur_asize = 0;
    unsigned char *place = nullptr;             // placement: the caller's buffer
    unsigned char *place_raw = nullptr;         // ... and the malloc block it lies in
    std::size_t place_size = 0;
    std::unique_ptr<Buf> buf;                   // buffer: the caller's vector
    std::uint32_t next_serial = 1;
    std::array<FrameRec, 16> frames;
    int nframes = 0;
    std::array<FrameRef, 16> crefs;             // one per creation (a callback object keeps pointing to its own)
    int ncreate = 0;
    FrameRef *cur_ref[2] = {nullptr, nullptr};  // creation in progress, per thread
    std::array<std::unique_ptr<cocls::future<int>>, 16> futs;   // family 2/3: what the coroutine awaits
    std::array<std::optional<cocls::promise<int>>, 16> proms;
    int fam = 0;
    bool obs_alloc = false;                     // reduced projection: heap traffic only (C20)
    bool torn = false;
    int nslots = 4;
    std::string kill = "finish";
    std::vector<std::string> notes;             // harness-side failures detected inside steps
    // two-thread mode
    vsched sched;
    bool mt = false;
    Cmd mailbox[2];

    ~World() { free(place_raw); }

    void note(const std::string &s) { alloc_pause np; notes.push_back(s); }

    // ---- abstract sizes ----
    static long abs_size(std::size_t b) {
        if (b == 0) return 0;
        for (int c = 3; c >= 1; c--) if (b >= F[c] && b < F[c] + 100) return 100 * c + (long) (b - F[c]);
        return -(long) b;
    }
    static std::size_t real_size(long a) { return a <= 0 ? 0 : F[a / 100] + (std::size_t) (a % 100); }
    static std::size_t items_of(std::size_t bytes) { return (bytes + sizeof(Buf::value_type) - 1) / sizeof(Buf::value_type); }
    static constexpr std::size_t item = sizeof(Buf::value_type);
    // buffer: the vector holds whole items -- n items stand for the abstract size of the request that needs exactly n
    static long abs_vec(std::size_t bytes) {
        if (P == Pol::buffer && bytes && bytes % item == 0)
            for (int c = 3; c >= 1; c--) if (bytes / item == items_of(F[c] + trailer)) return 100 * c + (long) trailer;
        return abs_size(bytes);
    }

    // ---- storage construction ----
    std::unique_ptr<A> make_storage() {
        alloc_pause np;
        if constexpr (P == Pol::stack) return nullptr;
        else if constexpr (EX) {
            World *w = this;
            return std::make_unique<A>([w] { return w->factory(); });
        }
        else if constexpr (P == Pol::placement) return std::make_unique<A>(static_cast<void *>(place));
        else if constexpr (P == Pol::buffer) return std::make_unique<A>(*buf);
        else return std::make_unique<A>();
    }
    Extra factory() {
        if (throw_next) { throw_next = false; throw FactoryError(); }
        return Extra(next_serial++);
    }
    A &new_stack_storage() {
        alloc_pause np;
        if constexpr (EX) { World *w = this; stack_storages.emplace_back([w] { return w->factory(); }); }
        else if constexpr (P == Pol::stack) stack_storages.emplace_back(state);
        return stack_storages.back();
    }
    void destroy_storage(std::unique_ptr<A> &u) {
        // the destructor runs as library code (it releases the policy's block); the object itself belongs to the harness
        if (A *s = u.release()) {
            { lib_scope ls; s->~A(); }
            ::operator delete(static_cast<void *>(s));
        }
    }

    // ---- hooks ----
    // is [p, p+n) memory the frame can physically be put in?
    bool usable_memory(const unsigned char *p, std::size_t n) const {
        if (!p) return false;
        // (anywhere inside an allocated block, the alloca block, the placement buffer: where exactly is reported as `at`)
        if (int slot = arena::slot_of(p))
            return arena::req[slot - 1] && p >= arena::start(slot) && p + n <= arena::start(slot) + arena::req[slot - 1];
        if (P == Pol::stack && cur_abuf && p >= cur_abuf && p + n <= cur_abuf + cur_asize) return true;
        if (P == Pol::placement && place && p >= place && p + n <= place + place_size) return true;
        return false;
    }
    static void *on_alloc(void *ctx, void *p, std::size_t sz) {
        World &w = *static_cast<World *>(ctx);
        int t = w.mt && vsched::self() ? vsched::self()->id : 0;
        if (!w.cur_ref[t]) { w.note("alloc-outside-creation"); return nullptr; }
        FrameRef &ref = *w.cur_ref[t];
        if (w.nframes >= (int) w.frames.size()) { w.note("too many frames"); return nullptr; }
        FrameRec &r = w.frames[w.nframes++];
        r.id = w.nframes;
        r.cls = ref.cls;
        r.creator = t;
        r.o = ref.o;
        r.ptr = static_cast<unsigned char *>(p);
        r.sz = sz;
        r.live = true;
        r.cidx = ref.idx;
        ref.r = &r;
        if (!EX) r.basz = sz;
        if (ref.cls >= 1 && ref.cls <= 3 && sz != F[ref.cls]) w.note("frame-size-differs-from-calibration:" + std::to_string(r.id));
        if (EX && w.pending_reloc) {         // relocated below the attached-object layer already
            r.orig = w.pending_base_ptr;
            r.base_reloc = true;
            w.pending_reloc = false;
        } else if (!w.usable_memory(r.ptr, sz + trailer)) {
            w.note(std::string(p ? "memory-unusable:" : "alloc-returned-null:") + std::to_string(r.id));
            r.orig = r.ptr;
            r.ptr = g_emergency[r.id - 1];
            return r.ptr;
        }
        return nullptr;
    }
    static void *on_dealloc(void *ctx, void *p, std::size_t sz, void **tok) {
        World &w = *static_cast<World *>(ctx);
        for (int i = w.nframes - 1; i >= 0; i--) {
            FrameRec &r = w.frames[i];
            if (r.live && !r.dying && r.ptr == p) {
                if (r.sz != sz) w.note("dealloc-size:" + std::to_string(r.id));
                if (EX) {
                    // promise_extra_storage::dealloc begins: the attached object is destroyed (code of the user, may
                    // execute steps of the scenario), then the block goes back to the base policy.  The frame's memory is
                    // the frame's until this dealloc returns.
                    r.dying = true;
                    *tok = &r;
                } else {
                    r.live = false;
                    r.dead = true;
                    r.bdsz = sz;
                    r.bdealloc = true;
                }
                return r.orig && !r.base_reloc ? nullptr : p;
            }
        }
        w.note("dealloc-unknown");
        return p;
    }
    static void on_dealloc_done(void *, void *tok) {
        if (!tok) return;
        FrameRec &r = *static_cast<FrameRec *>(tok);
        r.dying = false;
        r.live = false;
        r.dead = true;
    }
    // the base policy under the attached-object layer
    static void *on_base_alloc(void *ctx, void *p, std::size_t sz) {
        World &w = *static_cast<World *>(ctx);
        w.pending_base_ptr = static_cast<unsigned char *>(p);
        w.pending_base_sz = sz;
        w.pending_reloc = false;
        if (!w.usable_memory(w.pending_base_ptr, sz + PB<P>::trailer) && w.nframes < (int) w.frames.size()) {
            w.note(std::string(p ? "memory-unusable:" : "alloc-returned-null:") + std::to_string(w.nframes + 1));
            w.pending_reloc = true;
            return g_emergency[w.nframes];
        }
        return nullptr;
    }
    static bool on_base_dealloc(void *ctx, void *p, std::size_t &sz) {
        World &w = *static_cast<World *>(ctx);
        for (int i = w.nframes - 1; i >= 0; i--) {
            FrameRec &r = w.frames[i];
            if (r.dying && !r.bdealloc && r.ptr == p) {
                r.bdsz = sz;
                r.bdealloc = true;
                sz = r.basz;
                return !r.base_reloc;
            }
        }
        int t = 0;
        if (p == w.pending_base_ptr && w.cur_ref[t] && !w.cur_ref[t]->r) {
            // no frame came into being: the factory threw and the block goes back to the base policy
            if (sz != w.pending_base_sz) w.note("throw-path-dealloc-size:" + std::to_string(w.pending_base_sz) + "/" + std::to_string(sz));
            sz = w.pending_base_sz;
            return !w.pending_reloc;
        }
        w.note("base-dealloc-unknown");
        return true;
    }
    unsigned char *pending_base_ptr = nullptr;
    std::size_t pending_base_sz = 0;
    bool pending_reloc = false;

    // ---- the public operations ----
    FrameRef &new_ref(int t, int c, int o) {
        FrameRef &ref = crefs[ncreate % crefs.size()];
        ref = FrameRef{nullptr, c, t, ncreate % (int) crefs.size(), o};
        ncreate++;
        cur_ref[t] = &ref;
        pending_base_ptr = nullptr;
        pending_base_sz = 0;
        pending_reloc = false;
        if (fam >= 2) {     // harness objects, not the storage's
            alloc_pause np;
            futs[ref.idx].reset(new cocls::future<int>());
            proms[ref.idx].emplace(futs[ref.idx]->get_promise());
        }
        return ref;
    }

    void check_extra(A &st, FrameRef &ref) {
        FrameRec *r = ref.r;
        if (!r) return;
        if constexpr (EX) {
            // what the base policy was asked for
            if (pending_base_ptr == (r->orig ? r->orig : r->ptr) || r->base_reloc) r->basz = pending_base_sz;
            else note("base-alloc-not-seen:" + std::to_string(r->id));
            if (r->orig) { r->usable = false; return; }
            // the coroutine object exists (families 0/1: it has not started yet): the attached object must be usable
            Extra *e = st.operator->();
            r->serial = next_serial - 1;
            bool ok = reinterpret_cast<unsigned char *>(e) == r->ptr + r->sz && ereg::alive(e);
            if (ok) ok = e->magic == Extra::MAGIC && e->serial == r->serial && (*st).touch == 0;
            if (ok) e->touch = 7;      // use it
            r->usable = ok;
            invptr[ref.o - 1] = reinterpret_cast<unsigned char *>(st.inventory);
            invid[ref.o - 1] = r->id;
            last_stack_obj = &st;
        }
    }

    // creates a coroutine of class c on storage `st` and runs it up to its suspension (call inside lib_scope)
    void create_on(A &st, FrameRef &ref, int c) {
        long ev0 = ereg::n;
        if (fam < 2) {
            auto co = make_body<A, EX>(fam, c, st, ref);
            if (!ref.r) { note("alloc-hook-not-called"); return; }
            ref.r->ev_begin = ev0;
            check_extra(st, ref);
            auto sp = co.detach();
            std::coroutine_handle<> h = sp.pop();
            h.resume();                    // runs the body up to its gate: canaries written
        } else {
            make_cb<A, EX>(fam, c, st, ref, *futs[ref.idx]);   // created, started, suspended on the future
            if (!ref.r) { note("alloc-hook-not-called"); return; }
            ref.r->ev_begin = ev0;
            check_extra(st, ref);
        }
    }

    // (the stack policy's creation is done in run(): its alloca buffer must live in run()'s frame)
    void do_create(int t, int c, int o) {
        FrameRef &ref = new_ref(t, c, o);
        A *st = stor[o - 1].get();
        // a copy of a storage object that only refers to memory (placement, buffer) is the same storage
        if (use_copy && stor_copy && (ncreate & 1)) st = stor_copy.get();
        lib_scope ls;
        create_on(*st, ref, c);
    }

    // the factory of the attached object throws: no frame, the exception must reach us
    void create_throw_on(A &st, FrameRef &ref, int c) {
        throw_next = true;
        try {
            lib_scope ls;
            auto co = make_body<A, EX>(0, c, st, ref);      // (callback_await_coro is noexcept: plain bodies only)
            note("factory-exception-lost");
        } catch (const FactoryError &) {
            nthrown++;
        } catch (...) {
            note("factory-exception-replaced");
        }
        throw_next = false;
    }

    // the policy's own operator new call throws: no frame, std::bad_alloc must reach us, nothing else may change
    void create_fail_on(A &st, FrameRef &ref, int c) {
        arena::fail_next = true;
        try {
            lib_scope ls;
            auto co = make_body<A, EX>(0, c, st, ref);
            note("allocation-failure-lost");
        } catch (const std::bad_alloc &) {
            nthrown++;
        } catch (...) {
            note("allocation-failure-replaced");
        }
        if (arena::fail_next) { arena::fail_next = false; note("creation-did-not-allocate"); }
    }

    void do_complete(int, int f) {
        FrameRec &r = frames[f - 1];
        if constexpr (EX) {
            // the attached object stayed intact for the whole life of the frame
            auto *e = reinterpret_cast<Extra *>(r.ptr + r.sz);
            if (!r.orig && !(ereg::alive(e) && e->magic == Extra::MAGIC && e->serial == r.serial && e->touch == 7)) note("extra-damaged:" + std::to_string(r.id));
        }
        {
            lib_scope ls;
            if (fam >= 2) (*proms[r.cidx])(1);       // the awaited future resolves: callback runs, coroutine ends
            else if (kill == "destroy") r.h.destroy();
            else r.h.resume();
        }
        r.ev_end = ereg::n;
        if (!r.dead) note("frame-not-released:" + std::to_string(r.id));
        if (kill != "destroy" && !(r.finished && r.canary_ok)) note("canary-at-completion:" + std::to_string(r.id));
    }

    void do_teardown() {
        stor_copy.reset();
        for (int o = 1; o >= 0; o--) {
            destroy_storage(stor[o]);
            if (ost[o] == "live") ost[o] = "dead";
            invid[o] = 0;
        }
        if (buf) {
            { lib_scope ls; Buf().swap(*buf); }
            buf.reset();
        }
        torn = true;
    }

    // ---- storage objects constructed, moved, destroyed (reusable_storage) ----
    bool do_move(const Step &st) {
        if constexpr (!movable) return false;
        else {
            if (st.name == "NewObj") {
                stor[1] = make_storage();
                ost[1] = "live";
                invid[1] = 0;
            } else if (st.name == "MoveCtor") {
                A *n = static_cast<A *>(::operator new(sizeof(A)));        // the harness's memory
                { lib_scope ls; new (n) A(std::move(*stor[0])); }
                stor[1].reset(n);
                ost[1] = "live";
                moved_inv(0, 1);
            } else if (st.name == "MoveAssign") {
                int s = st.iarg(0) - 1, d = st.iarg(1) - 1;
                A &src = *stor[s];
                A &dst = *stor[d];
                { lib_scope ls; dst = std::move(src); }
                if (s != d) moved_inv(s, d);
            } else if (st.name == "Drop") {
                int o = st.iarg(0) - 1;
                destroy_storage(stor[o]);
                ost[o] = "dead";
                invid[o] = 0;
            } else return false;
            return true;
        }
    }
    void moved_inv(int s, int d) {
        if constexpr (EX) {
            // `inventory` travels with the object
            if (invid[s] && reinterpret_cast<unsigned char *>(stor[d]->inventory) != invptr[s]) note("inventory-not-moved");
            invid[d] = invid[s];
            invptr[d] = invptr[s];
        }
    }

    // ---- the owner of the buffer uses it while no coroutine is active (reusable_buffer_storage) ----
    bool do_owner(const Step &st) {
        if constexpr (P != Pol::buffer) return false;
        else {
            lib_scope ls;       // the vector's blocks come from the same heap
            if (st.name == "OwnerResize") buf->resize(items_of(F[st.iarg(0)] + trailer));
            else if (st.name == "OwnerShrink") buf->shrink_to_fit();
            else if (st.name == "OwnerClear") { buf->clear(); buf->shrink_to_fit(); }
            else if (st.name == "OwnerMoveOut") { Buf taken(std::move(*buf)); }
            else if (st.name == "OwnerSwap") { Buf fresh(items_of(F[st.iarg(0)] + trailer)); buf->swap(fresh); }
            else return false;
            return true;
        }
    }

    // ---- projection ----
    const unsigned char *policy_block(int o) const {
        if (torn || ost[o] != "live") return nullptr;
        if constexpr (P == Pol::reusable || P == Pol::mtsafe) return static_cast<const unsigned char *>((*stor[o]).*RProbe::ptr_mp());
        else if constexpr (P == Pol::buffer) return buf && buf->capacity() ? reinterpret_cast<const unsigned char *>(buf->data()) : nullptr;
        else return nullptr;
    }
    long policy_cap(int o) const {
        if (o == 1 && !movable) return 0;
        if constexpr (P == Pol::stack) return abs_size(state);
        else if constexpr (P == Pol::placement) return abs_size(place_size);
        else if (torn || ost[o] != "live") return 0;
        else if constexpr (P == Pol::reusable || P == Pol::mtsafe) {
            std::size_t c = stor[o]->capacity();
            if (c != (*stor[o]).*RProbe::cap_mp()) return -1;
            return abs_size(c);
        } else if constexpr (P == Pol::buffer) return abs_vec(buf->size() * item);
        else return 0;
    }
    long block_abs(int slot) const { return abs_vec(arena::req[slot - 1]); }    // (buffer: every block is the vector's)
    // does p point into the block of the buffer's vector?
    bool is_buffer_block(const unsigned char *p) const {
        if (P != Pol::buffer || !buf || !buf->capacity()) return false;
        auto d = reinterpret_cast<const unsigned char *>(buf->data());
        int slot = arena::slot_of(d);
        return slot && slot == arena::slot_of(p);
    }

    std::string pend_of(int t) {
        if (!mt) return "idle";
        if (sched.done(t)) return "idle";
        const auto &e = sched.pending(t);
        std::string f = e.func;
        switch (e.op) {
            case op_t::mark: return e.tag;
            case op_t::xchg: if (f.find("reusable_storage_mtsafe::alloc") != std::string::npos) return "xchg"; break;
            case op_t::store: case op_t::assign: if (f.find("reusable_storage_mtsafe::dealloc") != std::string::npos) return "store"; break;
            default: break;
        }
        return std::string("?") + cocls_verif::op_name(e.op) + "@" + f;
    }

    J project(int nthreads) {
        alloc_pause np;
        J m = J::map();
        J bad = J::list();
        for (auto &s : notes) bad.push(s);
        // heap
        J heap = J::list();
        for (int s = 1; s <= nslots; s++) heap.push(arena::req[s - 1] ? J(block_abs(s)) : J(0));
        for (int s = nslots + 1; s <= arena::NSLOT; s++) if (arena::req[s - 1]) bad.push("slot-beyond-model:" + std::to_string(s));
        m.set("heap", heap);
        if (arena::dblfree) bad.push("double-free");
        if (arena::overrun) bad.push("write-behind-block");
        if (arena::badptr) bad.push("delete-of-non-block-pointer");
        if (arena::exhausted) bad.push("arena-exhausted");
        // frames
        J fl = J::list();
        J wl = J::list();            // where each frame lies (reduced projection)
        for (int i = 0; i < nframes; i++) {
            FrameRec &r = frames[i];
            J f = J::map();
            long ct = 0, dt = 0;
            if constexpr (EX) {
                long end = r.ev_end < 0 ? ereg::n : r.ev_end;
                const unsigned char *at = (r.orig && !r.base_reloc ? r.orig : r.ptr) + r.sz;
                for (long k = r.ev_begin; k < end; k++) if (ereg::ev[k].addr == at) (ereg::ev[k].ctor ? ct : dt)++;
                if (!r.usable) bad.push("extra-unusable-at-creation:" + std::to_string(r.id));
            }
            f.set("ct", ct);
            f.set("dt", dt);
            if (!r.live) {
                f.set("c", 0); f.set("o", 0); f.set("live", false); f.set("where", "gone"); f.set("slot", 0); f.set("blk", 0);
                f.set("tr", "gone"); f.set("eo", "gone"); f.set("asz", 0); f.set("at", 0);
                // the base policy's dealloc was called with the size its alloc was called with
                f.set("dz", !r.bdealloc ? std::string("never") : r.bdsz == r.basz ? std::string("same")
                            : "alloc:" + std::to_string(r.basz) + "/dealloc:" + std::to_string(r.bdsz));
                fl.push(f);
                wl.push("gone");
                continue;
            }
            f.set("c", r.cls);
            f.set("o", r.o);
            f.set("live", true);
            f.set("asz", abs_size(r.basz));
            // the block is the frame's until the frame is gone: the base policy's dealloc has not been called for it
            f.set("dz", !r.bdealloc ? std::string("live") : r.bdsz == r.basz ? std::string("same")
                        : "alloc:" + std::to_string(r.basz) + "/dealloc:" + std::to_string(r.bdsz));
            std::size_t foot = r.sz + trailer;       // the frame plus everything the policy keeps behind it
            bool fits = false;
            int slot = arena::slot_of(r.ptr);
            std::string where = "unknown";
            // the area the policy owns for the frame [area, area + avail) and where in it the frame begins
            long at = 0;
            if (r.orig) {
                where = "relocated";
                f.set("slot", 0);
                f.set("blk", 0);
            } else if (slot) {
                where = "heap";
                f.set("slot", slot);
                std::size_t avail = arena::req[slot - 1];
                if (is_buffer_block(r.ptr)) avail = std::min(avail, buf->size() * item);    // what the vector holds
                f.set("blk", abs_vec(avail));
                at = (long) (r.ptr - arena::start(slot));
                fits = arena::req[slot - 1] && at >= 0 && (std::size_t) at + foot <= avail;
            } else if (P == Pol::stack && r.abuf && r.ptr >= r.abuf && r.ptr < r.abuf + std::max<std::size_t>(r.asize, 1)) {
                where = "stack";
                f.set("slot", r.prep);
                f.set("blk", abs_size(r.asize));
                at = (long) (r.ptr - r.abuf);
                fits = r.ptr + foot <= r.abuf + r.asize;
            } else if (P == Pol::placement && place && r.ptr >= place && r.ptr < place + std::max<std::size_t>(place_size, 1)) {
                where = "place";
                f.set("slot", 0);
                f.set("blk", abs_size(place_size));
                at = (long) (r.ptr - place);
                fits = (std::size_t) at + foot <= place_size;
            } else {
                f.set("slot", 0);
                f.set("blk", 0);
            }
            f.set("at", at);
            f.set("where", where);
            wl.push(where);
            if (!fits && !r.orig) bad.push("memory-too-small:" + std::to_string(r.id));
            // what lies behind the frame: the attached object, then what the base policy keeps
            std::string tr = "none", eo = "none";
            if (fits) {
                const unsigned char *bt = r.ptr + r.sz + extra_sz;
                if constexpr (P == Pol::mtsafe) {
                    void *own;
                    memcpy(&own, bt, sizeof(own));
                    tr = own == static_cast<cocls::reusable_storage_mtsafe *>(stor[0].get()) ? "own" : "bad";
                } else if constexpr (P == Pol::stack) {
                    tr = std::to_string((int) *bt);
                }
                if constexpr (EX) {
                    auto *e = reinterpret_cast<Extra *>(r.ptr + r.sz);
                    eo = ereg::alive(e) && e->magic == Extra::MAGIC ? (ereg::dying(e) ? "dying" : "obj") : "noobj";
                }
            } else tr = eo = "unreadable";
            f.set("tr", tr);
            f.set("eo", eo);
            fl.push(f);
            // canaries of every live frame, every step
            if (r.dying) {
                // the coroutine's frame has been destructed, what is left in the block is the attached object
            } else if (r.started) {
                bool ok = r.buf >= r.ptr && r.buf + r.n <= r.ptr + r.sz;
                if (ok && (fits || r.orig)) for (std::size_t k = 0; k < r.n; k++) ok &= r.buf[k] == pat(r.id, k);
                if (!ok) bad.push("canary:" + std::to_string(r.id));
            } else bad.push("not-started:" + std::to_string(r.id));
            if (r.guard) for (int k = 0; k < (int) GUARD; k++) if (r.guard[k] != 0xE7) { bad.push("alloca-guard:" + std::to_string(r.id)); break; }
        }
        // exclusivity on raw addresses
        for (int i = 0; i < nframes; i++) for (int j = i + 1; j < nframes; j++) {
            FrameRec &a = frames[i], &b = frames[j];
            if (!a.live || !b.live) continue;
            if (a.ptr < b.ptr + b.sz + trailer && b.ptr < a.ptr + a.sz + trailer)
                bad.push("overlap:" + std::to_string(a.id) + "+" + std::to_string(b.id));
        }
        if constexpr (EX) {
            int live = 0;
            for (int i = 0; i < nframes; i++) if (frames[i].live) live++;
            if (ereg::nalive() != live) bad.push("extra-objects-alive:" + std::to_string(ereg::nalive()) + "/frames:" + std::to_string(live));
            if (ereg::bad_dtor) bad.push("extra-destroyed-without-being-alive");
            if (ereg::over_alive) bad.push("extra-constructed-over-an-object-that-is-alive");
            if (ereg::damaged) bad.push("extra-overwritten-during-its-destructor");
        }
        m.set("fr", fl);
        // the storage objects and their bookkeeping
        J ol = J::list();
        for (int o = 0; o < 2; o++) {
            J x = J::map();
            x.set("st", ost[o]);
            const unsigned char *pb = policy_block(o);
            x.set("ptr", pb ? (arena::slot_of(pb) && pb == arena::start(arena::slot_of(pb)) ? arena::slot_of(pb) : -1) : 0);
            x.set("cap", policy_cap(o));
            long inv = 0;
            bool fac = ost[o] == "live";
            if constexpr (EX) {
                A *cur = P == Pol::stack ? last_stack_obj : stor[o].get();
                if (ost[o] == "live" && invid[o] && cur && !(P == Pol::stack && o == 1))
                    inv = reinterpret_cast<unsigned char *>(cur->inventory) == invptr[o] ? invid[o] : -1;
                if (ost[o] == "live" && P != Pol::stack) fac = static_cast<bool>(stor[o]->_factory);
            }
            x.set("inv", inv);
            x.set("fac", fac);
            ol.push(x);
        }
        m.set("objs", ol);
        J pl = J::list();
        for (auto &pp : preps) pl.push(abs_size(pp.asz));
        m.set("prep", pl);
        m.set("nthrow", nthrown);
        bool busy = false;
        if constexpr (P == Pol::mtsafe) if (!torn) busy = ((*stor[0]).*MProbe::busy_mp()).verif_peek();
        m.set("busy", busy);
        m.set("news", arena::news);
        m.set("dels", arena::dels);
        m.set("torn", torn);
        J pend = J::map();
        for (int t = 0; t < nthreads; t++) pend.set("t" + std::to_string(t + 1), pend_of(t));
        m.set("pend", pend);
        m.set("bad", bad);
        if (obs_alloc) {
            // C20: the storage's heap traffic only -- operator new / delete calls so far, blocks alive, and
            // whether each frame lies in a heap block at all
            J a = J::map();
            a.set("news", arena::news);
            a.set("dels", arena::dels);
            a.set("live", arena::used());
            a.set("where", wl);
            a.set("bad", bad);
            return a;
        }
        return m;
    }

    // ---- two-thread mode ----
    void thread_main(int t) {
        for (;;) {
            vsched::mark("idle");
            Cmd c = mailbox[t];
            mailbox[t] = Cmd{};
            if (c.k == Cmd::quit) return;
            if (c.k == Cmd::create) do_create(t, c.c, 1);
            else if (c.k == Cmd::complete) do_complete(t, c.f);
        }
    }

    static int tid_of(const std::string &s) { return s.size() >= 2 && s[0] == 't' ? atoi(s.c_str() + 1) - 1 : 0; }

    // ---- one step of the scenario (also called from inside the destructor of an attached object) ----
    const Scenario *cur_sc = nullptr;
    Reporter *cur_rep = nullptr;
    std::size_t pos = 0;                 // next step
    bool stop = false;
    int nthr = 1;
    int armed = 0;                       // frame whose attached object's destructor executes the steps up to DtorEnd
    std::size_t armed_k = 0;
    bool dtor_entered = false;
    static constexpr std::size_t STACK_POOL = 16 * (GUARD + 2048);
    unsigned char *pool_low = nullptr, *pool_top = nullptr;
    unsigned char *stack_take(std::size_t n) {
        std::size_t a = (n + 15) & ~std::size_t(15);
        if (!pool_top || (std::size_t) (pool_top - pool_low) < a) return nullptr;
        pool_top -= a;
        return pool_top;
    }

    // ~Extra of the frame that is completing (DtorBegin): compare the state as it is INSIDE the destructor, then execute the
    // steps of the scenario up to DtorEnd -- what a destructor that starts / finishes other coroutines does
    static void on_extra_dtor(void *ctx, const void *addr) {
        World &w = *static_cast<World *>(ctx);
        if (!w.armed || w.dtor_entered) return;
        FrameRec &r = w.frames[w.armed - 1];
        if (addr != r.ptr + r.sz) return;           // another object (a temporary of the factory)
        w.dtor_entered = true;
        int depth = arena::lib_depth;               // the destructor is code of the user, not of the library
        arena::lib_depth = 0;
        if (!w.cur_rep->check(w.armed_k, w.project(w.nthr))) w.stop = true;
        while (!w.stop && w.pos < w.cur_sc->steps.size() && w.cur_sc->steps[w.pos].name != "DtorEnd") w.exec_step(w.pos++);
        arena::lib_depth = depth;
    }

    void exec_step(std::size_t k) {
        const Step &st = cur_sc->steps[k];
        int t = tid_of(st.sarg(0));
        if (st.name == "Prepare" || st.name == "CreateP") {
            if constexpr (P != Pol::stack) { cur_rep->error(k, "prepared storages are stack_storage's"); { stop = true; return; } }
            else if (st.name == "Prepare") {
                // the storage is constructed from the shared state and given the block it asks for, now; used later
                A &sst = new_stack_storage();
                cocls::stack_storage &base = sst;
                unsigned char *guard = stack_take(GUARD);
                if (!guard) { cur_rep->error(k, "stack area exhausted"); stop = true; return; }
                memset(guard, 0xE7, GUARD);
                std::size_t asz = base;
                unsigned char *ab = stack_take(asz);
                if (!ab) { cur_rep->error(k, "stack area exhausted"); stop = true; return; }
                memset(ab, 0x5A, asz);
                base = ab;
                alloc_pause np;
                preps.push_back(PrepRec{&sst, ab, asz, guard});
            } else {
                int c = st.iarg(1), i = st.iarg(2);
                if (c < 1 || c > 3 || i < 1 || i > (int) preps.size()) { cur_rep->error(k, "bad arguments"); { stop = true; return; } }
                PrepRec &pp = preps[i - 1];
                FrameRef &ref = new_ref(0, c, 1);
                cur_abuf = pp.ab;
                cur_asize = pp.asz;
                {
                    lib_scope ls;
                    create_on(*pp.st, ref, c);
                }
                if (ref.r) { ref.r->abuf = pp.ab; ref.r->asize = pp.asz; ref.r->guard = pp.guard; ref.r->prep = i; }
            }
        } else if (st.name == "Create" || st.name == "CreateB" || st.name == "CreateThrow" || st.name == "CreateFail") {
            int c = st.iarg(1);
            int o = st.name == "CreateB" ? 2 : 1;
            if (c < 1 || c > 3 || t < 0 || t >= nthr || (o == 2 && !movable)) { cur_rep->error(k, "bad arguments"); { stop = true; return; } }
            if (st.name == "CreateFail" && mt) { cur_rep->error(k, "sequential only"); stop = true; return; }
            if (st.name == "CreateThrow" && (!EX || mt)) { cur_rep->error(k, "no factory"); { stop = true; return; } }
            if (mt) {
                if (pend_of(t) != "idle") { cur_rep->diverge(k, "thread is not idle: " + pend_of(t) + " got=" + project(nthr).dump()); { stop = true; return; } }
                mailbox[t] = Cmd{Cmd::create, c, 0};
                sched.step(t);                    // thread-local: up to the first operation on shared state
                if (pend_of(t) != "xchg") {
                    cur_rep->diverge(k, "creation does not start with the _busy exchange: thread parked at " + pend_of(t) + " got=" + project(nthr).dump());
                    { stop = true; return; }
                }
                sched.step(t);
            } else if constexpr (P == Pol::stack) {
                // as scheduler.h:241-255 does: a storage object per call, buffer from alloca
                bool thr = st.name == "CreateThrow";
                FrameRef &ref = new_ref(0, c, 1);
                A &sst = new_stack_storage();
                cocls::stack_storage &base = sst;
                unsigned char *guard = stack_take(GUARD);
                if (!guard) { cur_rep->error(k, "stack area exhausted"); stop = true; return; }
                memset(guard, 0xE7, GUARD);
                std::size_t asz = base;                                  // operator std::size_t
                unsigned char *ab = stack_take(asz);
                if (!ab) { cur_rep->error(k, "stack area exhausted"); stop = true; return; }
                memset(ab, 0x5A, asz);
                base = ab;                                               // stack_storage::operator=(void *)
                cur_abuf = ab;
                cur_asize = asz;
                if (thr) create_throw_on(sst, ref, c);
                else if (st.name == "CreateFail") create_fail_on(sst, ref, c);
                else {
                    lib_scope ls;
                    bool done = false;
                    if constexpr (copyable) if (use_copy && (ncreate & 1)) { A cp(sst); create_on(cp, ref, c); done = true; }   // a copy refers to the same buffer
                    if (!done) create_on(sst, ref, c);
                }
                if (ref.r) { ref.r->abuf = ab; ref.r->asize = asz; ref.r->guard = guard; }
#ifndef STORAGE_NO_STACK_PRIVATE
                if (asz != sst.*SProbe::asize_mp() || ab != sst.*SProbe::aptr_mp()) note("stack-storage-bookkeeping");
#endif
            } else {
                if (!stor[o - 1]) { cur_rep->diverge(k, "storage object does not exist got=" + project(nthr).dump()); { stop = true; return; } }
                if (st.name == "CreateThrow") { FrameRef &ref = new_ref(0, c, o); create_throw_on(*stor[o - 1], ref, c); }
                else if (st.name == "CreateFail") { FrameRef &ref = new_ref(0, c, o); create_fail_on(*stor[o - 1], ref, c); }
                else do_create(0, c, o);
            }
        } else if (st.name == "DtorBegin") {
            // frame f completes; the destructor of its attached object executes the steps up to DtorEnd(t,f) (on_extra_dtor):
            // the state is compared inside the destructor and, here, after the completion has returned
            int f = st.iarg(1);
            if (!EX || mt) { cur_rep->error(k, "no attached object"); stop = true; return; }
            if (f < 1 || f > nframes || !frames[f - 1].live || frames[f - 1].dying || armed) {
                cur_rep->diverge(k, "frame to complete is not live in the implementation got=" + project(nthr).dump());
                stop = true;
                return;
            }
            armed = f;
            armed_k = k;
            dtor_entered = false;
            do_complete(0, f);
            armed = 0;
            if (stop) return;
            if (!dtor_entered) {
                cur_rep->diverge(k, "the destructor of the attached object did not run during the completion of the frame got=" + project(nthr).dump());
                stop = true;
                return;
            }
            if (pos < cur_sc->steps.size()) {
                const Step &e = cur_sc->steps[pos];
                if (e.name != "DtorEnd" || e.iarg(1) != f) { cur_rep->error(pos, "DtorEnd of the frame expected"); stop = true; return; }
                std::size_t k2 = pos++;
                if (!cur_rep->check(k2, project(nthr))) stop = true;
            }
            return;
        } else if (st.name == "DtorEnd") {
            cur_rep->error(k, "DtorEnd without DtorBegin");
            stop = true;
            return;
        } else if (st.name == "Complete") {
            int f = st.iarg(1);
            if (f < 1 || f > nframes || !frames[f - 1].live || t < 0 || t >= nthr) {
                cur_rep->diverge(k, "frame to complete is not live in the implementation got=" + project(nthr).dump());
                { stop = true; return; }
            }
            if (mt) {
                if (pend_of(t) != "idle") { cur_rep->diverge(k, "thread is not idle: " + pend_of(t) + " got=" + project(nthr).dump()); { stop = true; return; } }
                mailbox[t] = Cmd{Cmd::complete, 0, f};
                sched.step(t);
            } else do_complete(0, f);
        } else if (st.name == "New" || st.name == "Del" || st.name == "Store") {
            std::string want = st.name == "New" ? "new" : st.name == "Del" ? "delete" : "store";
            if (!mt || t < 0 || t >= nthr) { cur_rep->error(k, "fine-grain step in sequential mode"); { stop = true; return; } }
            if (pend_of(t) != want) { cur_rep->diverge(k, "thread parked at " + pend_of(t) + ", expected " + want + " got=" + project(nthr).dump()); { stop = true; return; } }
            sched.step(t);
        } else if (st.name == "Teardown") {
            if (mt) {
                bool idle = pend_of(0) == "idle" && pend_of(1) == "idle";
                if (!idle) { cur_rep->diverge(k, "threads not idle at teardown got=" + project(nthr).dump()); { stop = true; return; } }
                for (int i = 0; i < 2; i++) mailbox[i] = Cmd{Cmd::quit, 0, 0};
                if (!sched.drain()) { cur_rep->diverge(k, "threads do not finish"); { stop = true; return; } }
            }
            do_teardown();
        } else if (!mt && (do_move(st) || do_owner(st))) {
            // done
        } else {
            cur_rep->error(k, "unknown action");
            { stop = true; return; }
        }
        if (!cur_rep->check(k, project(nthr))) stop = true;
    }

    // ---- scenario ----
    void run(const Scenario &sc, Reporter &rep) {
        calibrate();
        arena::reset();
        ereg::reset();
        mt = sc.hdr.at("mode").as_str("seq") == "mt";
        kill = sc.hdr.at("kill").as_str("finish");
        nslots = (int) sc.hdr.at("nslots").as_int(4);
        std::string grain = sc.hdr.at("grain").as_str("call");
        long init = sc.hdr.at("init").as_int(0);
        fam = (int) sc.hdr.at("fam").as_int(0);
        obs_alloc = sc.hdr.at("obs").as_str("full") == "alloc";
        use_copy = copyable && sc.hdr.at("copy").as_bool(false);
        if (fam < 0 || fam >= NFAM || (mt && fam >= 2) || (EX && fam != 0 && fam != 3)) { rep.error(0, "bad shape family"); return; }
        F = FF[fam];
        // (see create_throw_on; a coroutine of the callback families completed inside a destructor is only queued: the
        // thread's coro_queue is busy with the completion that runs the destructor)
        for (auto &stp : sc.steps) if (stp.name == "CreateThrow" || stp.name == "CreateFail" || stp.name == "DtorBegin") fam = 0;
        F = FF[fam];
        if (fam >= 2) kill = "finish";
        warm_thread();
        int nthreads = mt ? 2 : 1;
        if (mt && (P != Pol::mtsafe || EX)) { rep.error(0, "two-thread mode is for reusable_storage_mtsafe"); return; }
        // set-up (not part of the counted history)
        if constexpr (P == Pol::stack) { state = real_size(init); adapt::state = &state; }
        if constexpr (P == Pol::placement) {
            place_size = real_size(init);
            std::size_t off = (std::size_t) sc.hdr.at("boff").as_int(0);
            if (off >= 16) { rep.error(0, "bad buffer offset"); return; }
            place_raw = static_cast<unsigned char *>(malloc(off + (place_size ? place_size : 1)));   // exact size: ASan guards its end
            place = place_raw + off;
            adapt::place = place;
        }
        if constexpr (P == Pol::buffer) {
            g_buf_off = (std::size_t) sc.hdr.at("boff").as_int(0);
            if (g_buf_off % alignof(Buf::value_type) || g_buf_off >= 16) { rep.error(0, "bad buffer offset"); return; }
            buf.reset(new Buf());
            adapt::buf = buf.get();
            lib_scope ls;
            if (init) buf->resize(items_of(real_size(init) + trailer));     // a buffer that just fits a frame of that class
        }
        arena::news = arena::dels = 0;
        arena::nevents = 0;
        stor[0] = make_storage();
        if constexpr (copyable && P != Pol::stack) if (use_copy) { alloc_pause np; stor_copy.reset(new A(*stor[0])); }
        g_hook = TraceHook{this, &on_alloc, &on_dealloc, &on_dealloc_done};
        g_rec = EX ? RecHook{this, &on_base_alloc, &on_base_dealloc} : RecHook{};
        arena::alloc_marks = mt && grain == "alloc";
        if (mt) {
            sched.log_enabled = false;
            sched.install();
            for (int t = 0; t < 2; t++) sched.spawn([this, t] { thread_main(t); });
        }
        cur_sc = &sc;
        cur_rep = &rep;
        nthr = nthreads;
        stop = false;
        armed = 0;
        ereg::dtor_ctx = this;
        ereg::on_dtor = EX ? &on_extra_dtor : nullptr;
        if constexpr (P == Pol::stack) {
            // the stack area of the scenario: every stack_storage gets its block (and the guard behind it) from here,
            // downwards, like consecutive alloca calls -- also the ones created inside a destructor, whose frames may
            // outlive the call they were created in
            unsigned char *pool = static_cast<unsigned char *>(alloca(STACK_POOL));
            pool_low = pool;
            pool_top = pool + STACK_POOL;
        }
        for (pos = 0; pos < sc.steps.size() && !stop;) exec_step(pos++);
        ereg::on_dtor = nullptr;
        fflush(stdout);   // a divergence is on record even if the clean-up of a broken state crashes
        // ---- clean up whatever the scenario left, then: nothing may remain allocated ----
        bool drained = true;
        if (mt) {
            for (int i = 0; i < 2; i++) mailbox[i] = Cmd{Cmd::quit, 0, 0};
            drained = sched.drain();
            // a thread that was in the middle of an operation went back to idle and read `quit`
            sched.uninstall();
            if (!drained) {
                if (!rep.failed()) rep.diverge(sc.steps.size() - 1, "deadlock: threads blocked at the end of the schedule");
                fflush(stdout);
                _exit(1);
            }
            sched.join_all();
            mt = false;
        }
        arena::alloc_marks = false;
        for (int i = 0; i < nframes; i++) if (frames[i].live) {
            lib_scope ls;
            if (fam >= 2) (*proms[frames[i].cidx])(1);
            else if (frames[i].h) frames[i].h.destroy();
        }
        if (!torn) do_teardown();
        g_hook = TraceHook{};
        g_rec = RecHook{};
        if (!rep.failed()) {
            if (arena::used() != 0) rep.diverge(sc.steps.size() - 1, "heap blocks still allocated after the storage was destroyed: " + std::to_string(arena::used()));
            else if (arena::dblfree || arena::overrun || arena::badptr) rep.diverge(sc.steps.size() - 1, "heap misuse detected during clean-up");
            else if (EX && (ereg::nalive() != 0 || ereg::bad_dtor)) rep.diverge(sc.steps.size() - 1, "attached objects alive after all frames are gone");
        }
    }
};

template <bool EX>
static void run_world(const std::string &p, const Scenario &sc, Reporter &rep) {
    if (p == "reusable") { World<Pol::reusable, EX> w; w.run(sc, rep); }
    else if (p == "mtsafe") { World<Pol::mtsafe, EX> w; w.run(sc, rep); }
    else if (p == "stack") { World<Pol::stack, EX> w; w.run(sc, rep); }
#ifndef STORAGE_REPLAY_REUSING_ONLY      // reduced build for the allocation check of C20 (compiles faster)
    else if (p == "default") { World<Pol::def, EX> w; w.run(sc, rep); }
    else if (p == "placement") { World<Pol::placement, EX> w; w.run(sc, rep); }
    else if (p == "buffer") { World<Pol::buffer, EX> w; w.run(sc, rep); }
#endif
    else rep.error(0, "unknown policy");
}

int main(int argc, char **argv) {
    if (argc > 1 && !strcmp(argv[1], "--probe-grow")) {
        // order of the operator new / delete calls when reusable_storage::alloc grows
        traced<cocls::reusable_storage> st;
        arena::reset();
        {
            lib_scope ls;
            st.alloc(100);
            arena::nevents = 0;
            st.alloc(200);
        }
        arena::events[arena::nevents] = 0;
        printf("GROW %s\n", !strcmp(arena::events, "DN") ? "delete_new" : !strcmp(arena::events, "ND") ? "new_delete" : "unknown");
        return 0;
    }
    if (argc > 1 && !strcmp(argv[1], "--probe-throw")) {
        // does promise_extra_storage::alloc give the block back to its base policy when the factory throws?
        traced<cocls::promise_extra_storage<Extra, cocls::default_storage>> st([]() -> Extra { throw FactoryError(); });
        arena::reset();
        int thrown = 0;
        {
            lib_scope ls;
            try { st.alloc(100); } catch (const FactoryError &) { thrown = 1; } catch (...) { thrown = 2; }
        }
        printf("THROW %s\n", thrown == 0 ? "lost" : thrown == 2 ? "replaced" : arena::used() == 0 ? "released" : "kept");
        return 0;
    }
    if (argc > 1 && !strcmp(argv[1], "--sizes")) {
        calibrate();
        static const char *names[NFAM] = {"body", "body+8", "callback_await_alloc", "callback_await_alloc+8"};
        for (int f = 0; f < NFAM; f++)
            printf("SIZES fam%d %s: %zu %zu %zu (mod 16: %zu %zu %zu)\n", f, names[f], FF[f][1], FF[f][2], FF[f][3],
                   FF[f][1] % 16, FF[f][2] % 16, FF[f][3] % 16);
        return 0;
    }
    return replay_main(std::cin, [](const Scenario &sc, Reporter &rep) {
        std::string p = sc.hdr.at("policy").as_str();
#ifndef STORAGE_REPLAY_REUSING_ONLY
        if (sc.hdr.at("ex").as_bool(false)) run_world<true>(p, sc, rep);
        else
#endif
        run_world<false>(p, sc, rep);
    });
}
