// adapters_replay.cpp -- replays behaviours of spec/Adapters/Adapters.tla on the real callback adapters
// of cocls (property C18): callback_await / callback_await_alloc, make_promise (heap / storage), discard,
// call_fn_future_awaiter and the six future_conv forms.
//
// Two modes, selected by the scenario header:
//   "mode":"seq"   Grain = "call": one real thread, one step = one public call
//                  (Register(timing,outcome,context) | Resolve(outcome,context) | UserResolve)
//                  context = where in the user's program the call happens: "plain" ordinary control flow,
//                  "guard" in the destructor of an RAII guard during stack unwinding, "handler" inside a catch
//                  handler (an exception outcome is the handled exception: p(std::current_exception()) /
//                  p.unhandled_exception()), resolution only: "scope" the promise is destroyed at the end of
//                  its scope, "local" the promise is a local destroyed by an exception leaving its scope
//                  "ctx":"coro": the whole scenario runs INSIDE a running coroutine (ready queue active, on a
//                  fresh thread): callback_await's helper coroutine is only queued by the call and starts /
//                  resumes at the step Yield (co_await pause()).  "argk" says how callback_await's awaitable
//                  constructor argument is passed: temporary / lvalue / moved named object; the argument is a
//                  tracked object whose destruction and moved-from state poison it ("args" in the projection
//                  counts awaitables built from a poisoned argument).
//   "mode":"conc"  Grain = "atomic": real threads under the controlled scheduler (vsched): the registering
//                  thread "a" and the resolver thread(s) "r1","r2"; one step = one atomic operation on the
//                  awaited future's shared words (Start | Check | Cas | Fence | Claim(r) | Swap(r)) plus
//                  the thread-local code that follows it; UserResolve is executed by the controller.
//                  "fine":true: Grain = "fine" (vsched yield_after): the atomic operation (FCheck | FCas |
//                  FFence | FClaim(r) | FSwap(r)) and the plain code after it (PostCheck | PostCas | PostFence
//                  | PostClaim(r) | PostSwap(r)) are separate steps.
//
//                  "cx":{thread:context}: the registering thread makes its call / each resolver resolves the
//                  promise in that context (the threads park inside the guard's destructor / the handler)
// header: {"mode","fine","ctx","argk","ad","alloc","cv","reg","tovoid","rk":{r:outcome},"cx":{thread:context},"k":variant selector}
//   k selects among equivalent ways of writing the same scenario (how the awaited future is produced:
//   init lambda / lambda returning a future / already resolved static future / existing future by
//   reference; a broken promise by p(drop) or by destroying the promise)
// projection after each step (see tools/checks/c18.py proj()):
//   {"round","src":{"slot","armed","tag","v"},"args","calls","got":{"tag","v"},"heap","news","cb","st":{..storage..},
//    conv only: "prom","outer":{"st","v"},"user";  conc only: "owner","by","pend":{thread:pc},"res":{r:..}}
#define REPLAY_COUNT_ALLOCS
#include <cocls/future.h>
#include <cocls/async.h>
#include <cocls/callback_awaiter.h>
#include <cocls/future_conv.h>
#include <cocls/coro_storage.h>
#include <cocls_verif/vsched.h>
#include "replay_common.h"

#include <optional>
#include <thread>

using namespace rp;
using cocls_verif::vsched;
using cocls_verif::op_t;

struct TestExc { int who; };   // the awaited operation's exception
struct ConvExc { int who; };   // thrown by the user's converter
struct Unwind {};              // the unrelated exception that propagates / is handled around a call ("guard","handler","local")

// runs f in the given execution context of the calling thread
template <typename F>
static void run_in_ctx(const std::string &x, F &&f) {
    if (x == "guard") {
        struct G { F &f; ~G() { f(); } };          // std::uncaught_exceptions() > 0 inside
        try { G g{f}; throw Unwind{}; } catch (const Unwind &) {}
    } else if (x == "handler") {
        try { throw Unwind{}; } catch (const Unwind &) { f(); }
    } else f();
}

enum Tag { T_NONE, T_VAL, T_EXC, T_DROP, T_CALLED, T_DEAD, T_OTHER };
static const char *tag_name(Tag t) {
    switch (t) {
        case T_NONE: return "none";
        case T_VAL: return "val";
        case T_EXC: return "exc";
        case T_DROP: return "drop";
        case T_CALLED: return "called";
        case T_DEAD: return "dead";     // callback invoked on a destroyed / moved-from functor
        default: return "other";
    }
}

static thread_local const char *tl_name = "t";
static thread_local int tl_setup = 0;   // >0: harness-side hand-over of the promise, no scheduling points
static thread_local int tl_slot_final = 0;   // this thread executed its CAS / exchange on the awaited future's slot

// ---- allocation accounting -------------------------------------------------------------------------
// Library allocations are the global operator new/delete calls made (a) inside a LibScope on the
// calling thread (sequential mode, controller-side calls) and (b) on a managed thread between the start
// and the end of its body (concurrent mode: the body consists of library calls and allocation-free
// harness code only).  Counters of a parked thread are read through pointers to its thread-locals.
struct ThreadAcct {
    long *pn = nullptr, *pd = nullptr;
    long bn = 0, bd = 0, fn = 0, fd = 0;
    bool started = false, fin = false;
    void begin() { pn = &alloc_stats::news; pd = &alloc_stats::deletes; bn = *pn; bd = *pd; started = true; }
    void end() { fn = *pn - bn; fd = *pd - bd; fin = true; }
    long news() const { return !started ? 0 : fin ? fn : *pn - bn; }
    long deletes() const { return !started ? 0 : fin ? fd : *pd - bd; }
};

struct WorldBase {
    // parameters
    std::string mode, ad, alloc, cv, reg, ctx, argk;
    bool tovoid = false, conc = false, fine = false;
    long k = 0;
    // driver state
    int round = 0;
    std::string pre = "none";     // outcome to deliver inside the starting function ("before" timing)
    bool use_static = false;      // ... by returning an already resolved future
    bool drop_by_dtor = false;
    std::string cxa = "plain";    // execution context of the registering call
    std::string cxr[3] = {"plain", "plain", "plain"};   // concurrent mode: execution context of resolver i
    int magic = 0;                // what the arguments passed in this round carry
    int badargs = 0;              // awaitables built from a destroyed / moved-from / foreign argument
    // what the user's callbacks observed (written without allocating)
    int calls = 0;
    Tag got_tag = T_NONE;
    int got_v = 0;
    const char *by = "none";
    int holders = 0;              // live (not moved-from) instances of the user's functor
    int copies = 0;
    const char *user = "none";    // promise-passing converter kept the promise
    int user_v = 0;
    // shared words of the awaited future (scheduling points of the concurrent mode)
    const void *slot_addr = nullptr;
    const void *owner_addr = nullptr;
    // allocation accounting
    long scope_news = 0, scope_deletes = 0;
    ThreadAcct acct[3];
    long news() const { long n = scope_news; for (auto &a : acct) n += a.news(); return n; }
    long deletes() const { long n = scope_deletes; for (auto &a : acct) n += a.deletes(); return n; }

    void record(Tag t, int v) { calls++; got_tag = t; got_v = v; by = tl_name; }
    bool is_conv() const { return ad.rfind("conv_", 0) == 0; }
    virtual ~WorldBase() = default;
};

static WorldBase *g_w = nullptr;

struct LibScope {
    WorldBase &w;
    long n0, d0;
    explicit LibScope(WorldBase &w_) : w(w_), n0(alloc_stats::news), d0(alloc_stats::deletes) {}
    ~LibScope() { w.scope_news += alloc_stats::news - n0; w.scope_deletes += alloc_stats::deletes - d0; }
};

// The thread-local ready queue (std::deque) is constructed lazily once per thread.
static void warm_thread() { (void) cocls::coro_queue::queue_impl::instance._queue.size(); }

// ---- storages ----------------------------------------------------------------------------------------
struct MtProbe : cocls::reusable_storage_mtsafe {
    bool busy() const { return _busy.verif_peek(); }
};

// counts alloc/dealloc pairs; blocks come from malloc (not counted as heap); a registry of live blocks
// (no allocation) makes a double or foreign dealloc visible instead of crashing
struct CountingStorage {
    struct Entry { void *p; std::size_t sz; CountingStorage *owner; };
    static inline Entry live[16];
    static inline int nlive = 0;
    long allocs = 0, deallocs = 0, bad = 0;
    void *alloc(std::size_t sz) {
        void *p = malloc(sz);
        allocs++;
        if (nlive < 16) live[nlive++] = Entry{p, sz, this}; else bad++;
        return p;
    }
    static void dealloc(void *p, std::size_t sz) {
        for (int i = 0; i < nlive; i++) if (live[i].p == p) {
            CountingStorage *me = live[i].owner;
            me->deallocs++;
            if (live[i].sz != sz) me->bad++;
            live[i] = live[--nlive];
            free(p);
            return;
        }
        if (last) { last->deallocs++; last->bad++; }   // not a live block of any counting storage
    }
    static inline CountingStorage *last = nullptr;
    CountingStorage() { last = this; nlive = 0; }
    ~CountingStorage() { if (last == this) last = nullptr; }
};

// ---- user functors -----------------------------------------------------------------------------------
struct Tok {
    WorldBase *w;
    explicit Tok(WorldBase &w_) : w(&w_) { w->holders++; }
    Tok(Tok &&o) noexcept : w(o.w) { o.w = nullptr; }
    Tok(const Tok &o) : w(o.w) { if (w) { w->holders++; w->copies++; } }
    Tok &operator=(const Tok &) = delete;
    ~Tok() { if (w) w->holders--; }
    bool live() const { return w && w->holders > 0; }
};

template <typename From, typename Get>
static void observe(Get &&get) {
    WorldBase &w = *g_w;
    try {
        if constexpr (std::is_void_v<From>) { get(); w.record(T_VAL, 0); }
        else { int v = get(); w.record(T_VAL, v); }
    } catch (const TestExc &e) { w.record(T_EXC, e.who); }
    catch (const cocls::await_canceled_exception &) { w.record(T_DROP, 0); }
    catch (...) { w.record(T_OTHER, 0); }
}

template <typename From>
struct CbFn {   // callback_await
    Tok tok;
    void operator()(cocls::await_result<From> r) {
        if (!tok.live()) { g_w->record(T_DEAD, 0); return; }
        observe<From>([&]() -> decltype(auto) { if constexpr (std::is_void_v<From>) r.get(); else return *r; });
    }
};

template <typename From>
struct MkFn {   // make_promise
    Tok tok;
    void operator()(cocls::future<From> &f) {
        if (!tok.live()) { g_w->record(T_DEAD, 0); return; }
        observe<From>([&]() -> decltype(auto) { if constexpr (std::is_void_v<From>) f.value(); else return f.value(); });
    }
};

// ---- probes --------------------------------------------------------------------------------------------
template <typename T>
struct FProbe : cocls::future<T> {
    static auto slot_mp() { return &FProbe::_awaiter; }
    static auto state_mp() { return &FProbe::_state; }
    static auto value_mp() { return &FProbe::_value; }
    static auto exc_mp() { return &FProbe::_exception; }
};
template <typename T>
struct PProbe : cocls::promise<T> {
    static auto owner_mp() { return &PProbe::_owner; }
};

struct AwProbe : cocls::awaiter {
    static auto fn_mp() { return &AwProbe::_resume_fn; }
    static auto h_mp() { return &AwProbe::_handle_addr; }
    static resume_fn nullfn() { return &AwProbe::null_fn; }
    // the node can be resumed: a resume function other than the default no-op, or a coroutine handle
    static bool armed(cocls::awaiter *a) {
        auto fn = a->*fn_mp();
        if (fn == nullfn()) return false;
        return fn != nullptr || a->*h_mp() != nullptr;
    }
};

template <typename T>
static const char *slot_of(cocls::future<T> &f) {
    cocls::awaiter *a = (f.*FProbe<T>::slot_mp()).verif_peek();
    if (a == nullptr) return "null";
    if (a == &cocls::awaiter::disabled) return "ready";
    if (a == &cocls::awaiter::instance) return "none";
    return "helper";
}

// state of a (ready or not) future: tag in none|val|exc(TestExc)|exccv(ConvExc)|canceled|other
template <typename T>
static void stored_of(cocls::future<T> &f, std::string &tag, int &v) {
    using S = cocls::future_common::State;
    auto st = f.*FProbe<T>::state_mp();
    v = 0;
    if (st == S::not_value) tag = "none";
    else if (st == S::value) {
        tag = "val";
        if constexpr (!std::is_void_v<T>) v = f.*FProbe<T>::value_mp();
    } else if (st == S::exception) {
        try { std::rethrow_exception(f.*FProbe<T>::exc_mp()); }
        catch (const TestExc &e) { tag = "exc"; v = e.who; }
        catch (const ConvExc &e) { tag = "exccv"; v = e.who; }
        catch (const cocls::await_canceled_exception &) { tag = "canceled"; }
        catch (...) { tag = "other"; }
    } else tag = "other";
}

// ---- the world: awaited future + its promise ----------------------------------------------------------
struct AdapterBase {
    virtual ~AdapterBase() = default;
    virtual void reg() = 0;                 // the registration call (runs on the registering thread)
    virtual void proj(J &) {}               // adapter specific part of the projection
    virtual void user_resolve() {}
    virtual bool outer_pending() { return false; }
};

template <typename From>
struct World : WorldBase {
    std::optional<cocls::promise<From>> p;
    cocls::promise<From> *pp = nullptr;       // where the promise object lives now (null: it does not exist)
    cocls::future<From> *fut = nullptr;       // where the awaited future lives (null: unknown)
    bool fut_member = false;                  // it is a member of a persistent adapter object
    std::optional<cocls::future<From>> ext;   // awaited by reference (callback_await<future<T>&>)
    std::optional<cocls::reusable_storage> st_reusable;
    std::optional<MtProbe> st_mt;
    std::optional<CountingStorage> st_count;
    std::unique_ptr<AdapterBase> adapter;
    bool rres_set[3] = {false, false, false};
    bool rres[3] = {false, false, false};

    void set_shared_words() {
        slot_addr = fut ? (const void *) &(fut->*FProbe<From>::slot_mp()) : nullptr;
        owner_addr = pp ? (const void *) &(pp->*PProbe<From>::owner_mp()) : nullptr;
    }

    // the starting function received the promise: keep it (no scheduling points, nobody else knows it yet)
    void arm(cocls::promise<From> &&pr) {
        tl_setup++;
        if (!fut_member) fut = const_cast<cocls::future<From> *>(static_cast<const cocls::future<From> *>(pr.get_id()));
        p.emplace(std::move(pr));
        pp = &*p;
        set_shared_words();
        tl_setup--;
        if (pre != "none") {                  // "before": the operation completes inside the starting function
            resolve(pre, 1);
            if (!p) pp = nullptr;
        }
    }

    // the promise is never called: it lives in a scope of the resolving thread which is left normally
    // ("scope") or by an exception ("local"); ~promise resolves the future (future.h:600-603)
    bool drop_by_scope(bool throwing) {
        bool valid = false;
        try {
            struct R { World &w; ~R() { w.pp = nullptr; w.set_shared_words(); } } r{*this};
            tl_setup++;                       // hand-over into the scope: nobody else uses the promise
            cocls::promise<From> local(std::move(*p));
            pp = &local;
            set_shared_words();
            valid = static_cast<bool>(local);
            tl_setup--;
            if (throwing) throw Unwind{};
        } catch (const Unwind &) {}
        return valid;
    }

    // the resolution by `kind` in execution context x
    bool resolve_ctx(const std::string &kind, int idx, const std::string &x) {
        if (x == "scope" || x == "local") return drop_by_scope(x == "local");
        if (x == "assign") {
            // the promise variable is re-used while it still holds the unresolved target: operator=(promise &&)
            // must drop the held target first (sequential mode only)
            if ((k + idx) % 2 == 0) *p = cocls::promise<From>();
            else {
                cocls::future<From> f2;
                *p = f2.get_promise();        // re-armed for another operation ...
                (*p)(cocls::drop);            // ... which is finished at once (never destroy a pending future)
            }
            return true;
        }
        bool r = false;
        if (x == "handler" && kind == "exc") {
            // the outcome is the exception being handled
            try { throw TestExc{10 * round + idx}; }
            catch (...) {
                if ((k + idx) % 2 == 1) r = p->unhandled_exception();
                else r = (*p)(std::current_exception());
            }
            return r;
        }
        run_in_ctx(x, [&] { r = resolve(kind, idx); });
        return r;
    }

    bool resolve(const std::string &kind, int idx) {
        int v = 10 * round + idx;
        if (kind == "val") {
            if constexpr (std::is_void_v<From>) return (*p)();
            else return (*p)(v);
        }
        if (kind == "exc") return (*p)(std::make_exception_ptr(TestExc{v}));
        if (drop_by_dtor) { p.reset(); return true; }
        return (*p)(cocls::drop);
    }

    cocls::future<From> static_future() {
        int v = 10 * round + 1;
        if (pre == "val") {
            if constexpr (std::is_void_v<From>) return cocls::future<From>::set_value();
            else return cocls::future<From>::set_value(v);
        }
        if (pre == "exc") return cocls::future<From>::set_exception(std::make_exception_ptr(TestExc{v}));
        return cocls::future<From>::set_not_value();
    }

    bool helper_alive() const {
        if (ad == "cbawait" || ad == "cbawait_v" || ad == "mkprom") return holders > 0;
        if (ad == "discard") return news() - deletes() > 0;
        return round > 0;
    }

    J project() {
        J m = J::map();
        m.set("round", round);
        J src = J::map();
        std::string slot = "gone", tag = "none";
        int v = 0;
        bool armed = false;
        if (helper_alive() && fut) {
            slot = slot_of(*fut);
            stored_of(*fut, tag, v);
            if (slot == "helper") armed = AwProbe::armed((fut->*FProbe<From>::slot_mp()).verif_peek());
        }
        src.set("slot", slot); src.set("armed", armed); src.set("tag", tag); src.set("v", v);
        m.set("src", src);
        m.set("args", badargs);
        m.set("calls", calls);
        J got = J::map();
        got.set("tag", tag_name(got_tag)); got.set("v", got_v);
        m.set("got", got);
        m.set("heap", news() - deletes());
        m.set("news", news());
        m.set("cb", holders + 100 * copies);
        J st = J::map();
        if (st_reusable) st.set("cap", st_reusable->capacity() > 0);
        if (st_mt) { st.set("cap", st_mt->capacity() > 0); st.set("busy", st_mt->busy()); }
        if (st_count) { st.set("a", st_count->allocs); st.set("d", st_count->deallocs); st.set("bad", st_count->bad); }
        m.set("st", st);
        if (adapter) adapter->proj(m);
        if (is_conv()) m.set("user", user);
        if (conc) {
            m.set("owner", !pp ? "none" : (pp->*PProbe<From>::owner_mp()).verif_peek() ? "fut" : "null");
            m.set("by", by);
        }
        return m;
    }
};

// what the adapters pass as "function which starts the operation and returns its future": an object that
// carries state (the round's magic number).  Its destructor and its move constructor poison the source
// object, so an awaitable that is built later from a dangling or moved-from argument is noticed (nothing of
// the object itself is trusted before the check: the world is reached through g_w).
struct ArgState {
    volatile int state;    // 1 alive, 2 moved-from, 3 destroyed
    volatile int magic;
    explicit ArgState(int m) : state(1), magic(m) {}
    ArgState(ArgState &&o) noexcept : state(o.state), magic(o.magic) { o.state = 2; o.magic = -1; }
    ArgState(const ArgState &o) : state(o.state), magic(o.magic) {}
    ~ArgState() { state = 3; magic = -2; }
    void check() const { if (state != 1 || magic != g_w->magic) g_w->badargs++; }
};

template <typename From>
struct Factory {
    ArgState a;
    explicit Factory(WorldBase &w) : a(w.magic) {}
    cocls::future<From> operator()() const {
        a.check();
        World<From> *pw = static_cast<World<From> *>(g_w);
        // "fthrow": the start of the operation fails synchronously; the exception is the operation's outcome
        if (pw->pre == "fthrow") throw TestExc{10 * pw->round + 1};
        if (pw->use_static) return pw->static_future();
        return cocls::future<From>([pw](cocls::promise<From> pr) { pw->arm(std::move(pr)); });
    }
};

// the awaitable constructed from a function receiving the promise
template <typename From>
struct InitFn {
    ArgState a;
    explicit InitFn(WorldBase &w) : a(w.magic) {}
    void operator()(cocls::promise<From> pr) const {
        a.check();
        static_cast<World<From> *>(g_w)->arm(std::move(pr));
    }
};

// ---- callback_await / callback_await_alloc -----------------------------------------------------------
template <typename From>
struct CbAwaitAdapter : AdapterBase {
    World<From> &w;
    std::optional<Factory<From>> named[4];   // lvalue arguments: the caller keeps them alive (one per round)
    explicit CbAwaitAdapter(World<From> &w_) : w(w_) {}

    // the call itself, with the argument passed as the scenario says
    template <typename Arg>
    void call(Arg &&arg) {
        using Awt = cocls::future<From>;
        if (w.alloc == "heap") cocls::callback_await<Awt>(CbFn<From>{Tok(w)}, std::forward<Arg>(arg));
        else if (w.alloc == "reusable") cocls::callback_await_alloc<cocls::reusable_storage, Awt>(*w.st_reusable, CbFn<From>{Tok(w)}, std::forward<Arg>(arg));
        else if (w.alloc == "mtsafe") cocls::callback_await_alloc<cocls::reusable_storage_mtsafe, Awt>(*w.st_mt, CbFn<From>{Tok(w)}, std::forward<Arg>(arg));
        else cocls::callback_await_alloc<CountingStorage, Awt>(*w.st_count, CbFn<From>{Tok(w)}, std::forward<Arg>(arg));
    }

    void reg() override {
        using Awt = cocls::future<From>;
        int variant = (int) (w.k % 4);
        if (w.argk == "lvalue") {
            auto &slot = named[w.round % 4];
            slot.reset();
            slot.emplace(w);
            call(*slot);                                    // Args = Factory &
        } else if (w.argk == "moved") {
            Factory<From> f(w);
            call(std::move(f));                             // Args = Factory; f is moved-from, then destroyed
        } else if (variant == 2 && !w.use_static) {
            call(InitFn<From>(w));                          // temporary, future(init function)
        } else if (variant == 3 && !w.use_static && !w.conc && w.alloc == "heap" && w.ctx != "coro") {
            // an existing future awaited by reference
            w.ext.emplace();
            w.fut = &*w.ext;
            w.fut_member = true;
            w.arm(w.ext->get_promise());
            w.fut_member = false;
            cocls::callback_await<Awt &>(CbFn<From>{Tok(w)}, *w.ext);
        } else {
            call(Factory<From>(w));                         // temporary
        }
    }
};

// ---- make_promise ---------------------------------------------------------------------------------------
template <typename From>
struct MkPromAdapter : AdapterBase {
    World<From> &w;
    explicit MkPromAdapter(World<From> &w_) : w(w_) {}
    void reg() override {
        if (w.alloc == "heap") w.arm(cocls::make_promise<From>(MkFn<From>{Tok(w)}));
        else if (w.alloc == "reusable") w.arm(cocls::make_promise<From>(MkFn<From>{Tok(w)}, *w.st_reusable));
        else if (w.alloc == "mtsafe") w.arm(cocls::make_promise<From>(MkFn<From>{Tok(w)}, static_cast<cocls::reusable_storage_mtsafe &>(*w.st_mt)));
        else w.arm(cocls::make_promise<From>(MkFn<From>{Tok(w)}, *w.st_count));
    }
};

// ---- discard -----------------------------------------------------------------------------------------------
struct DiscardAdapter : AdapterBase {
    World<int> &w;
    explicit DiscardAdapter(World<int> &w_) : w(w_) {}
    void reg() override { cocls::discard(Factory<int>(w)); }
};

// ---- call_fn_future_awaiter ----------------------------------------------------------------------------
struct CfObj {
    cocls::suspend_point<void> done(cocls::future<int> &f) noexcept {
        observe<int>([&]() -> int { return f.value(); });
        return {};
    }
};
struct CfAw : cocls::call_fn_future_awaiter<&CfObj::done> {
    using base = cocls::call_fn_future_awaiter<&CfObj::done>;
    using base::base;
    using base::_fut;
};
struct CallFnAdapter : AdapterBase {
    World<int> &w;
    CfObj obj;
    CfAw aw;
    explicit CallFnAdapter(World<int> &w_) : w(w_), aw(obj) { w.fut = &aw._fut; w.fut_member = true; }
    void reg() override { aw << Factory<int>(w); }
};

// ---- future_conv ------------------------------------------------------------------------------------------
template <typename To> static cocls::promise<To> g_user_prom;

template <typename To>
static To conv_value(bool has, int x) {
    WorldBase &w = *g_w;
    int base = has ? x : 10 * w.round;
    w.record(has ? T_VAL : T_CALLED, has ? x : 0);
    if (w.cv == "throw") throw ConvExc{base};
    if constexpr (!std::is_void_v<To>) return base + 100;
}

template <typename To>
static cocls::suspend_point<void> conv_pp(bool has, int x, cocls::promise<To> &p) {
    WorldBase &w = *g_w;
    int base = has ? x : 10 * w.round;
    w.record(has ? T_VAL : T_CALLED, has ? x : 0);
    if (w.cv == "throw") throw ConvExc{base};
    if (w.cv == "ignore") return {};
    if (w.cv == "later") {
        g_user_prom<To> = std::move(p);
        w.user = "held";
        w.user_v = base + 100;
        return {};
    }
    return p(base + 100);
}

template <typename To>
struct CvCtx {
    To mem(int &x) { return conv_value<To>(true, x); }
    To mem_v() { return conv_value<To>(false, 0); }
    cocls::suspend_point<void> pp(int &x, cocls::promise<To> &p) { return conv_pp<To>(true, x, p); }
    cocls::suspend_point<void> pp_v(cocls::promise<To> &p) { return conv_pp<To>(false, 0, p); }
};
// g++ does not instantiate member functions that are only named as template arguments
template struct CvCtx<int>;
template struct CvCtx<void>;
template <typename To> static To free_fn(int &x) { return conv_value<To>(true, x); }
template <typename To> static To free_ctx(int &x, CvCtx<To> *) { return conv_value<To>(true, x); }

template <typename C>
struct ConvP : C {
    using C::C;
    auto &prom() { return this->_prom; }
    auto &fut() { return this->_fut; }
};

template <typename C, typename From, typename To, bool WithCtx>
struct ConvAdapter : AdapterBase {
    World<From> &w;
    CvCtx<To> ctx;
    std::optional<ConvP<C>> conv;
    alignas(cocls::future<To>) unsigned char obuf[sizeof(cocls::future<To>)];
    cocls::future<To> *outer = nullptr;

    explicit ConvAdapter(World<From> &w_) : w(w_) {
        if constexpr (WithCtx) conv.emplace(&ctx); else conv.emplace();
        w.fut = &conv->fut();
        w.fut_member = true;
    }
    ~ConvAdapter() override {
        if (outer) outer->~future();
        conv.reset();
    }
    void reg() override {
        if (outer) { outer->~future(); outer = nullptr; }
        w.user = "none";
        // `outer` is set first: in the concurrent mode the projection is taken while this call is parked
        // inside the registration (the future's base is initialised before the init function runs)
        outer = reinterpret_cast<cocls::future<To> *>(obuf);
        if (w.reg == "ret") {
            new (obuf) cocls::future<To>(*conv << Factory<From>(w));
        } else {
            new (obuf) cocls::future<To>();
            (*conv)(outer->get_promise()) << Factory<From>(w);
        }
    }
    bool outer_pending() override { return outer && std::string(slot_of(*outer)) != "ready"; }
    void user_resolve() override {
        if constexpr (!std::is_void_v<To>) g_user_prom<To>(w.user_v);
        w.user = "done";
    }
    void proj(J &m) override {
        auto *own = (conv->prom().*PProbe<To>::owner_mp()).verif_peek();
        m.set("prom", own == nullptr ? "null" : own == outer ? "outer" : "stray");
        J o = J::map();
        std::string st = "none";
        int v = 0;
        if (outer) {
            std::string slot = slot_of(*outer);
            if (slot != "ready") st = slot == "null" ? "pending" : "pending:" + slot;
            else {
                stored_of(*outer, st, v);
                if (st == "exc") st = "excsrc";
                else if (st == "none") st = "drop";
            }
        }
        o.set("st", st); o.set("v", v);
        m.set("outer", o);
    }
};

template <typename From>
static std::unique_ptr<AdapterBase> make_adapter(World<From> &w) {
    const std::string &ad = w.ad;
    if constexpr (std::is_void_v<From>) {
        if (ad == "cbawait_v") return std::make_unique<CbAwaitAdapter<void>>(w);
        if (ad == "conv_mem_v") {
            if (w.tovoid) return std::make_unique<ConvAdapter<cocls::future_conv<&CvCtx<void>::mem_v>, void, void, true>>(w);
            return std::make_unique<ConvAdapter<cocls::future_conv<&CvCtx<int>::mem_v>, void, int, true>>(w);
        }
        if (ad == "conv_pp_v") return std::make_unique<ConvAdapter<cocls::future_conv<&CvCtx<int>::pp_v>, void, int, true>>(w);
    } else {
        if (ad == "cbawait") return std::make_unique<CbAwaitAdapter<int>>(w);
        if (ad == "mkprom") return std::make_unique<MkPromAdapter<int>>(w);
        if (ad == "discard") return std::make_unique<DiscardAdapter>(w);
        if (ad == "callfn") return std::make_unique<CallFnAdapter>(w);
        if (ad == "conv_mem") {
            if (w.tovoid) return std::make_unique<ConvAdapter<cocls::future_conv<&CvCtx<void>::mem>, int, void, true>>(w);
            return std::make_unique<ConvAdapter<cocls::future_conv<&CvCtx<int>::mem>, int, int, true>>(w);
        }
        if (ad == "conv_pp") return std::make_unique<ConvAdapter<cocls::future_conv<&CvCtx<int>::pp>, int, int, true>>(w);
        if (ad == "conv_free") {
            if (w.tovoid) return std::make_unique<ConvAdapter<cocls::future_conv<&free_fn<void>>, int, void, false>>(w);
            return std::make_unique<ConvAdapter<cocls::future_conv<&free_fn<int>>, int, int, false>>(w);
        }
        if (ad == "conv_free_ctx") return std::make_unique<ConvAdapter<cocls::future_conv<&free_ctx<int>>, int, int, true>>(w);
    }
    return nullptr;
}

// ---- scheduling points of the concurrent mode -------------------------------------------------------
// A managed thread yields before: harness marks, the subscribe fence, and every atomic operation on
// the awaited future's slot (future::_awaiter) or on the promise's owner word -- the only words both
// threads use.  Everything else (the outer future / parked promise of a converter, the storage's busy
// flag, promise objects being handed over) belongs to one thread at the time it is accessed and is
// executed inside the step.  future::value() calls pending() (relaxed load of the slot) only to choose
// between two exception types after the result is known: no scheduling point either.
static bool no_yield_fn(const cocls_verif::event &e) {
    if (e.op == op_t::mark) return false;
    if (tl_setup) return true;
    if (e.op == op_t::fence) return false;
    WorldBase *w = g_w;
    if (!w) return true;
    if (e.obj != nullptr && e.obj == w->owner_addr) return false;
    if (e.obj != nullptr && e.obj == w->slot_addr) {
        if (e.op == op_t::cas || e.op == op_t::xchg) { tl_slot_final = 1; return false; }
        if (e.op == op_t::load && strstr(e.func, "future_common::pending(") != nullptr) return true;
        // future::operator* (used by the converters' resume functions) goes through wait() -> ready():
        // a load of the slot by a thread that already knows the slot is final (it performed the
        // resolving exchange itself, or its own subscription was refused) always reads "ready"
        if ((e.op == op_t::load || e.op == op_t::conv) && tl_slot_final) return true;
        return false;
    }
    return true;
}

template <typename From>
static void teardown(World<From> &w, Reporter &rep, std::size_t last, bool check) {
    if (w.p && ((*w.p).*PProbe<From>::owner_mp()).verif_peek() != nullptr) {
        // only after a divergence: never destroy a pending future
        LibScope s(w);
        (*w.p)(cocls::drop);
    }
    bool stuck_outer = w.adapter && w.adapter->outer_pending();
    if (stuck_outer) {
        // a converter left its outer future pending: it cannot be destroyed (the parked promise points
        // to it); leak the adapter
        (void) w.adapter.release();
    }
    w.adapter.reset();   // allocated by the harness; the adapter objects themselves own no heap memory
    {
        LibScope s(w);
        g_user_prom<int> = cocls::promise<int>();
        g_user_prom<void> = cocls::promise<void>();
        w.p.reset();
        w.ext.reset();
        w.st_reusable.reset();
        w.st_mt.reset();
    }
    if (!check) return;
    if (stuck_outer) { rep.diverge(last, "outer future still pending at the end"); return; }
    if (w.news() != w.deletes())
        rep.diverge(last, "allocation balance not zero at the end: news=" + std::to_string(w.news()) + " deletes=" + std::to_string(w.deletes()));
    else if (w.st_count && (w.st_count->allocs != w.st_count->deallocs || w.st_count->bad))
        rep.diverge(last, "counting storage unbalanced at the end");
    else if (w.holders != 0 || w.copies != 0)
        rep.diverge(last, "user functor instances left: " + std::to_string(w.holders) + " copies=" + std::to_string(w.copies));
}

template <typename From>
static void setup(World<From> &w, const Scenario &sc) {
    w.mode = sc.hdr.at("mode").as_str("seq");
    w.conc = w.mode == "conc";
    w.ad = sc.hdr.at("ad").as_str();
    w.alloc = sc.hdr.at("alloc").as_str("na");
    w.cv = sc.hdr.at("cv").as_str("na");
    w.reg = sc.hdr.at("reg").as_str("na");
    w.tovoid = sc.hdr.at("tovoid").as_bool();
    w.k = sc.hdr.at("k").as_int();
    w.ctx = sc.hdr.at("ctx").as_str("plain");
    w.argk = sc.hdr.at("argk").as_str("na");
    w.fine = sc.hdr.at("fine").as_bool(false);
    if (w.alloc == "reusable") w.st_reusable.emplace();
    if (w.alloc == "mtsafe") w.st_mt.emplace();
    if (w.alloc == "counting") w.st_count.emplace();
    g_w = &w;
    w.adapter = make_adapter<From>(w);
}

// ---- sequential mode ------------------------------------------------------------------------------------
enum class StepRes { ok, bad, yield };

// one public call; returns yield when the step is "the calling coroutine suspends" (performed by the caller)
template <typename From>
static StepRes seq_step(World<From> &w, const Scenario &sc, Reporter &rep, std::size_t k) {
    const Step &st = sc.steps[k];
    if (st.name == "Register") {
        w.round++;
        w.magic = 1000 + w.round;
        w.pre = st.sarg(1);
        w.cxa = st.sarg(2);
        bool before = st.sarg(0) == "before";
        if (before != (w.pre != "none")) { rep.error(k, "bad Register arguments"); return StepRes::bad; }
        // equivalent ways of writing the scenario, chosen by the driver's variant selector
        w.use_static = before && ((w.k + w.round) % 2 == 1) && w.ad != "mkprom";
        w.drop_by_dtor = ((w.k / 2 + w.round) % 2 == 1);
        if (!w.fut_member) w.fut = nullptr;   // the previous round's future is gone with its helper
        LibScope s(w);
        run_in_ctx(w.cxa, [&] { w.adapter->reg(); });
        // w.pre stays: a helper whose start is deferred builds the awaitable (and resolves it) later
    } else if (st.name == "Resolve") {
        if (!w.p) { rep.diverge(k, "no promise was handed out"); return StepRes::bad; }
        w.pre = "none";
        w.drop_by_dtor = false;   // how the promise is dropped is the step's context here
        LibScope s(w);
        w.resolve_ctx(st.sarg(0), 1, st.sarg(1));
    } else if (st.name == "UserResolve") {
        LibScope s(w);
        w.adapter->user_resolve();
    } else if (st.name == "Yield") {
        return StepRes::yield;
    } else {
        rep.error(k, "unknown action");
        return StepRes::bad;
    }
    return StepRes::ok;
}

// "ctx":"coro": the scenario's calls are made by a running coroutine; Yield = it suspends and lets the
// thread's ready queue run (the queued helper coroutine starts / resumes), then continues
template <typename From>
static cocls::async<void> seq_driver(World<From> &w, const Scenario &sc, Reporter &rep, bool &bad) {
    for (std::size_t k = 0; k < sc.steps.size(); k++) {
        StepRes r = seq_step(w, sc, rep, k);
        if (r == StepRes::bad) { bad = true; break; }
        if (r == StepRes::yield) {
            LibScope s(w);
            co_await cocls::pause();
        }
        if (!rep.check(k, w.project())) { bad = true; break; }
    }
}

template <typename From>
static void run_seq(const Scenario &sc, Reporter &rep) {
    World<From> w;
    setup(w, sc);
    if (!w.adapter) { rep.error(0, "unknown adapter " + w.ad); return; }
    bool bad = false;
    if (w.ctx == "coro") {
        // a fresh thread: its ready queue (std::deque) is new, so the few pushes of one scenario never reach
        // the point where the deque allocates another node (that would be counted as a helper allocation)
        std::thread th([&] {
            warm_thread();
            seq_driver<From>(w, sc, rep, bad).detach();
        });
        th.join();
    } else {
        for (std::size_t k = 0; k < sc.steps.size(); k++) {
            StepRes r = seq_step(w, sc, rep, k);
            if (r == StepRes::yield) { rep.error(k, "Yield outside a coroutine"); r = StepRes::bad; }
            if (r == StepRes::bad) { bad = true; break; }
            if (!rep.check(k, w.project())) { bad = true; break; }
        }
    }
    teardown(w, rep, sc.steps.empty() ? 0 : sc.steps.size() - 1, !bad);
    g_w = nullptr;
}

// ---- concurrent mode --------------------------------------------------------------------------------------
template <typename From>
struct Conc {
    World<From> w;
    vsched sched;
    std::map<std::string, int> tid;
    std::map<std::string, std::string> rk;

    static int idx_of(const std::string &name) { return name == "a" ? 0 : name == "r1" ? 1 : 2; }

    std::string pend_of(const std::string &name) {
        auto it = tid.find(name);
        if (it == tid.end()) return "idle";
        int t = it->second;
        if (sched.done(t)) return "done";
        const auto &e = sched.pending(t);
        std::string f = e.func;
        auto has = [&](const char *s) { return f.find(s) != std::string::npos; };
        // fine grain: parked right AFTER the operation = at the plain code that follows it
        std::string pre = sched.pending_after(t) ? "post_" : "";
        switch (e.op) {
            case op_t::mark: return "idle";
            case op_t::load: case op_t::conv:
                if (has("::ready(")) return pre + "check";
                if (e.op == op_t::load && has("~promise(")) return pre + "claim";   // ~promise: plain load of _owner
                break;
            case op_t::cas:
                if (has("subscribe_check_ready")) return pre + "cas";
                break;
            case op_t::fence: return pre + "fence";
            case op_t::xchg:
                if (has("::claim(")) return pre + "claim";
                if (has("resume_chain_set_ready")) return pre + "swap";
                break;
            default: break;
        }
        return std::string("?") + pre + cocls_verif::op_name(e.op) + "@" + f;
    }

    J project() {
        J m = w.project();
        J pend = J::map(), res = J::map();
        pend.set("a", pend_of("a"));
        for (auto &kv : rk) {
            pend.set(kv.first, pend_of(kv.first));
            int i = idx_of(kv.first);
            res.set(kv.first, !w.rres_set[i] ? "none" : w.rres[i] ? "true" : "false");
        }
        m.set("pend", pend);
        m.set("res", res);
        return m;
    }

    void spawn_a() {
        World<From> *pw = &w;
        tid["a"] = sched.spawn([pw] {
            tl_name = "a";
            warm_thread();
            vsched::mark("start");
            pw->acct[0].begin();
            run_in_ctx(pw->cxa, [pw] { pw->adapter->reg(); });
            pw->acct[0].end();
        });
    }
    void spawn_resolvers() {
        for (auto &kv : rk) {
            World<From> *pw = &w;
            int i = idx_of(kv.first);
            const char *name = i == 1 ? "r1" : "r2";
            const std::string *kind = &kv.second;
            tid[kv.first] = sched.spawn([pw, i, name, kind] {
                tl_name = name;
                warm_thread();
                pw->acct[i].begin();
                bool b = pw->resolve_ctx(*kind, i, pw->cxr[i]);
                pw->rres[i] = b;
                pw->rres_set[i] = true;
                pw->acct[i].end();
            });
        }
    }

    void run(const Scenario &sc, Reporter &rep) {
        setup(w, sc);
        if (!w.adapter) { rep.error(0, "unknown adapter " + w.ad); return; }
        for (auto &kv : sc.hdr.at("rk").m) rk[kv.first] = kv.second.s;
        for (auto &kv : sc.hdr.at("cx").m) {
            if (kv.first == "a") w.cxa = kv.second.s; else w.cxr[idx_of(kv.first)] = kv.second.s;
        }
        sched.log_enabled = false;
        sched.no_yield = &no_yield_fn;
        sched.yield_after = w.fine;
        sched.install();
        spawn_a();
        bool bad = false;
        for (std::size_t k = 0; k < sc.steps.size() && !bad; k++) {
            const Step &st = sc.steps[k];
            if (st.name == "UserResolve") {
                LibScope s(w);
                w.adapter->user_resolve();
            } else {
                // fine grain: FX = the operation X, PostX = the plain code after it
                std::string nm = st.name;
                bool post = nm.rfind("Post", 0) == 0;
                if (post) nm = nm.substr(4);
                else if (w.fine && nm.size() > 1 && nm[0] == 'F') nm = nm.substr(1);
                std::string th = (nm == "Claim" || nm == "Swap") ? st.sarg(0) : "a";
                auto it = tid.find(th);
                if (it == tid.end()) { rep.diverge(k, "thread " + th + " does not exist yet got=" + project().dump()); bad = true; break; }
                int t = it->second;
                std::string want = nm == "Start" ? "idle" : nm == "Check" ? "check" : nm == "Cas" ? "cas"
                                 : nm == "Fence" ? "fence" : nm == "Claim" ? "claim" : nm == "Swap" ? "swap" : "?";
                if (post) want = "post_" + want;
                if (!sched.enabled(t) || pend_of(th) != want) {
                    rep.diverge(k, "thread " + th + " is not at '" + want + "' in the implementation got=" + project().dump());
                    bad = true;
                    break;
                }
                if (nm == "Start") { w.round++; w.magic = 1000 + w.round; }
                sched.step(t);
                // fine grain: the code after the start mark belongs to Start
                if (nm == "Start" && w.fine && sched.parked(t) && sched.pending_after(t) && sched.pending(t).op == op_t::mark) sched.step(t);
                if (nm == "Start") spawn_resolvers();   // each runs up to its claim exchange
            }
            if (!rep.check(k, project())) bad = true;
        }
        bool drained = sched.drain();
        if (!drained && !bad) { rep.diverge(sc.steps.size() - 1, "threads blocked at the end of the schedule got=" + project().dump()); bad = true; }
        if (drained && !bad) {
            for (auto &kv : tid) if (!sched.done(kv.second)) { rep.diverge(sc.steps.size() - 1, "thread " + kv.first + " not finished at the end"); bad = true; break; }
        }
        sched.uninstall();
        if (!drained) { fflush(stdout); _exit(1); }
        sched.join_all();
        teardown(w, rep, sc.steps.empty() ? 0 : sc.steps.size() - 1, !bad);
        g_w = nullptr;
    }
};

static bool void_source(const std::string &ad) { return ad == "cbawait_v" || ad == "conv_mem_v" || ad == "conv_pp_v"; }

int main() {
    warm_thread();
    return replay_main(std::cin, [](const Scenario &sc, Reporter &rep) {
        bool conc = sc.hdr.at("mode").as_str("seq") == "conc";
        bool vs = void_source(sc.hdr.at("ad").as_str());
        if (conc) {
            if (vs) { Conc<void> c; c.run(sc, rep); } else { Conc<int> c; c.run(sc, rep); }
        } else {
            if (vs) run_seq<void>(sc, rep); else run_seq<int>(sc, rep);
        }
    });
}
