// generator_replay.cpp -- replays behaviours of spec/Generator/Generator.tla on the real
// cocls::generator<V> / cocls::generator<V,A> where V and A are TRACKED payload types (Tracked<0>, Tracked<1>: content id,
// moved-from flag set on the source by move construction/assignment, global copy/move/live counters; non-trivial like
// std::string but not allocating).  The body yields in several forms: a dying local variable / a temporary ("yield"),
// a temporary computed from its own variable ("yt"), its own variable which it keeps extending afterwards ("yv"), and
// std::move(variable) ("ym"); the projection carries the variable's content and moved-from flag, the public view
// gen.value() of the current item, and the numbers of copy / move constructions of V and of A made so far.
//
// A scenario is one maximal path of the specification's state graph: a (body script, consumer
// script) pair with its execution.  Internal specification actions (BodyResume, BodyStep, ...,
// SyncReturn) are merged into the public call that contains them, so a step is one of
//     NextSync("sync"|"begin"|"inc"|"postinc"|"kbool")   NextAsync("coawait"|"kco")   NextFuture   ExternalResolve(k)   Destroy
// "kbool" / "kco": accesses through ONE next() object the consumer keeps (`auto nx = gen.next();`) and reuses:
// `if (nx) gen.value()` and `co_await nx` (in mode cb: nx.subscribe(awaiter) with await_ready / await_resume called by
// hand); the object's cached flag _state is projected as "nx".
// The body's throw steps ("throw", "thr_nomore", "thr_cancel", "thr_notready", "thr_nolonger", "thr_nonstd") throw an
// application exception, the library's own exception types (thr_nomore every other time by really stepping a
// finished source generator once more) and a type not derived from std::exception.  The harness remembers THE
// exception object that left the body; a consumer reports "exc" (with the code of its dynamic type) only for that very
// object, so an exception the library made up itself is never mistaken for the body's.
// The body script is not visible in the merged labels: it is read from the `bscript` history of the
// LAST step's expected projection (the whole scenario is in memory); the body coroutine interprets
// it.  After EVERY step the projection of the real objects is compared with the specification.
//
// header: {"modes":[...]}   each scenario is executed once per listed mode, all must conform
//   native   : consumer is plain code; co_await accesses are made by a small coroutine per access,
//              futures returned by gen() are kept and inspected when ready
//   coro     : one consumer coroutine (cocls::async<void>) performs all accesses: sync ones, co_await
//              gen.next(), co_await of the future / of future::has_value() / future kept and the awaited
//              operation completed by the coroutine itself, and a real range-for for begin/inc runs
//   cb       : the consumer is a set of completion CALLBACKS that run inline inside the generator's hand-over
//              (yield_suspend::await_suspend -> caller->resume()): gen() futures are consumed through the
//              library's call_fn_future_awaiter, co_await-style accesses through an awaiter given to
//              next().subscribe(); a callback asks for the next item right away from inside itself when the next
//              access is of one of these two kinds (re-entrant request while the generator is still inside
//              yield_suspend); the other styles are made by plain code as in `native`.  The step comparison is
//              then made from inside the callback, and once more after everything has unwound.
//   thr_late / thr_early : as native but the consumer runs on its own thread under the controlled
//              scheduler (vsched); a sync access may really block in _block.wait(), every other gen()
//              future is waited for with a blocking sync(), and the awaited operation is completed by
//              another thread.  late: the blocked consumer continues after
//              the completing thread has returned; early: the consumer is released as soon as
//              _block was stored (before notify_all / before the completing thread has unwound)
// header "witharg" selects generator<V,A>.
//
// projection (keys sorted):
//  {"alive","bscript":[...],"bst","cscript":[...],"got":[{"a","v"}],"it","loc":{"ctor","dtor"},
//   "obs":[{"p","r","v"}],"par","pr":{"arg","awaiting","block","caller","done","exp","ifn","ret"}|{},
//   "aops","aux":{"ctor","dtor","par"},"cp","val","var":{"id","m"}}
// steps: ... plus ObjOp("movector"|"assign_empty|fresh|yield|final"|"swap_fresh|yield|final"): operations on the generator OBJECT.
// Arguments are passed as lvalue, as temporary and as std::move(named object), rotating with the access number.
#include <cocls/generator.h>
#include <cocls/async.h>
#include <cocls/future.h>
#include <cocls_verif/vsched.h>
#include "replay_common.h"

#include <optional>
#include <unistd.h>

using namespace rp;
using cocls_verif::vsched;
using cocls_verif::op_t;

struct TestExc : std::exception {};
struct NonStd { int tag; };      // not derived from std::exception

// ExcCode of the specification, from the dynamic type of an exception
static int exc_code(const std::exception_ptr &e) {
    try { std::rethrow_exception(e); }
    catch (const TestExc &) { return 1; }
    catch (const cocls::no_more_values_exception &) { return 2; }
    catch (const cocls::await_canceled_exception &) { return 3; }
    catch (const cocls::value_not_ready_exception &) { return 4; }
    catch (const cocls::no_longer_avaible_exception &) { return 5; }
    catch (const NonStd &n) { return n.tag == 42 ? 6 : -6; }
    catch (...) { return -1; }
}

// ---------------------------------------------------------------------------------------------
// allocation accounting (C20: stepping a synchronous generator allocates nothing of its own).
// Every global operator new executed by a thread while it is inside a consumer access (an open
// `Win`) is counted, except harness bookkeeping done from inside such an access (`Pause`: the body's
// script interpreter, the step comparison made from inside a completion callback).  The coroutine
// frames (the generator's, the consumer coroutines') are created outside the accesses.
// C++ exceptions are allocated by the runtime with malloc (__cxa_allocate_exception), not operator new.
// ---------------------------------------------------------------------------------------------
static thread_local int t_window = 0;
static thread_local int t_pause = 0;
static std::atomic<long> g_lib_allocs{0};
struct Win { Win() { ++t_window; } ~Win() { --t_window; } Win(const Win &) = delete; };
struct Pause { Pause() { ++t_pause; } ~Pause() { --t_pause; } Pause(const Pause &) = delete; };
struct WinFlag {      // a window that can be closed while the consumer coroutine waits for its next command
    bool open = false;
    void on() { if (!open) { ++t_window; open = true; } }
    void off() { if (open) { --t_window; open = false; } }
    ~WinFlag() { off(); }
};
void *operator new(std::size_t sz) {
    void *p = malloc(sz ? sz : 1);
    if (!p) throw std::bad_alloc();
    if (t_window > 0 && t_pause == 0) g_lib_allocs.fetch_add(1, std::memory_order_relaxed);
    return p;
}
void *operator new[](std::size_t sz) { return operator new(sz); }
void operator delete(void *p) noexcept { free(p); }
void operator delete[](void *p) noexcept { operator delete(p); }
void operator delete(void *p, std::size_t) noexcept { operator delete(p); }
void operator delete[](void *p, std::size_t) noexcept { operator delete(p); }

// ---------------------------------------------------------------------------------------------
// access to the private hand-over record of generator<>::promise_type (explicit instantiation may
// name private members; the pointers are stored at static-initialisation time)
// ---------------------------------------------------------------------------------------------
template <typename Tag> struct Stolen { static inline typename Tag::type value{}; };
template <typename Tag, typename Tag::type V> struct Steal { static inline const bool done = (Stolen<Tag>::value = V, true); };

// ---------------------------------------------------------------------------------------------
// tracked payload
// ---------------------------------------------------------------------------------------------
template <int Tag> struct Tracked {
    int id = 0;
    bool moved = false;
    static inline std::atomic<int> copies{0}, moves{0}, live{0};
    // where objects were constructed from a content (the consumer's argument temporaries): address -> content, so that a
    // pointer to a temporary that is already gone can still be identified without touching it
    struct Where { const void *addr; int id; };
    static inline Where where[64];
    static inline std::atomic<unsigned> nwhere{0};
    static int content_at(const void *p) {
        unsigned n = nwhere.load();
        for (unsigned k = 0; k < 64 && k < n; k++) { const Where &w = where[(n - 1 - k) % 64]; if (w.addr == p) return w.id; }
        return -1;
    }
    Tracked() { ++live; }
    explicit Tracked(int i) : id(i) { ++live; unsigned n = nwhere.fetch_add(1); where[n % 64] = Where{this, i}; }
    Tracked(const Tracked &o) : id(o.id), moved(o.moved) { ++live; ++copies; }
    Tracked(Tracked &&o) noexcept : id(o.id), moved(o.moved) { ++live; ++moves; o.id = 0; o.moved = true; }
    Tracked &operator=(const Tracked &o) { id = o.id; moved = o.moved; ++copies; return *this; }
    Tracked &operator=(Tracked &&o) noexcept { id = o.id; moved = o.moved; ++moves; o.id = 0; o.moved = true; return *this; }
    ~Tracked() { --live; }
    void set(int i) { id = i; moved = false; }        // the owner writes new content
    operator int() const { return id; }               // reading the content never copies the object
    static void reset_counters() { copies = 0; moves = 0; nwhere = 0; }
};
using V = Tracked<0>;     // what the generator yields
using A = Tracked<1>;     // what the consumer passes in

using G0 = cocls::generator<V>;
using G1 = cocls::generator<V, A>;

template <typename G> struct T_caller { using type = cocls::awaiter *G::promise_type::*; };
template <typename G> struct T_internal { using type = cocls::malleable_awaiter G::promise_type::*; };
template <typename G> struct T_arg { using type = typename G::storage_Arg_ptr G::promise_type::*; };
template <typename G> struct T_ret { using type = V *G::promise_type::*; };
template <typename G> struct T_exp { using type = std::exception_ptr G::promise_type::*; };
template <typename G> struct T_done { using type = bool G::promise_type::*; };
template <typename G> struct T_block { using type = cocls_verif::atomic<bool> G::promise_type::*; };
template <typename G> struct T_awaiting { using type = cocls::promise<V> G::promise_type::*; };
template <typename G> struct T_fn_sync { using type = cocls::awaiter::resume_fn; };
template <typename G> struct T_fn_future { using type = cocls::awaiter::resume_fn; };

#define STEAL_ALL(G)                                                         \
    template struct Steal<T_caller<G>, &G::promise_type::_caller>;           \
    template struct Steal<T_internal<G>, &G::promise_type::_internal>;       \
    template struct Steal<T_arg<G>, &G::promise_type::_arg>;                 \
    template struct Steal<T_ret<G>, &G::promise_type::_ret>;                 \
    template struct Steal<T_exp<G>, &G::promise_type::_exp>;                 \
    template struct Steal<T_done<G>, &G::promise_type::_done>;               \
    template struct Steal<T_block<G>, &G::promise_type::_block>;             \
    template struct Steal<T_awaiting<G>, &G::promise_type::_awaiting>;       \
    template struct Steal<T_fn_sync<G>, &G::promise_type::resume_fn_sync>;   \
    template struct Steal<T_fn_future<G>, &G::promise_type::resume_fn_future>;
// GEN_NO_PRIVATE: fallback build without the probes of the PRIVATE hand-over record (used when a change of the
// record's representation keeps the full harness from compiling): the record is then left out of the projection on both
// sides and only the public observations (values, end/exception indications, counters, allocations) are compared.
#ifndef GEN_NO_PRIVATE
STEAL_ALL(G0)
STEAL_ALL(G1)
#endif

struct AwProbe : cocls::awaiter {
    static resume_fn fn_of(const cocls::awaiter &a) { return a.*(&AwProbe::_resume_fn); }
};

// ---------------------------------------------------------------------------------------------
struct Obs {
    std::string r = "pending";
    int v = 0;
    int p = 0;
};
struct Got { int a; int v; };

enum Kind { K_SYNC, K_BEGIN, K_INC, K_POSTINC, K_COAWAIT, K_FUTURE, K_KBOOL, K_KCO, K_DESTROY, K_RESOLVE, K_OBJ, K_QUIT };
static inline bool is_access(Kind k) { return k <= K_KCO; }
static const char *const OBJ_KINDS[] = {"movector", "assign_empty", "assign_fresh", "assign_yield", "assign_final",
                                        "swap_fresh", "swap_yield", "swap_final"};
struct Cmd { Kind kind = K_QUIT; int idx = 0; };

template <typename G> struct World;

struct Counted {     // the body's RAII local
    int *ctor, *dtor;
    Counted(int *c, int *d) : ctor(c), dtor(d) { ++*ctor; }
    Counted(const Counted &) = delete;
    ~Counted() { ++*dtor; }
};
struct Param {       // the coroutine's by-value parameter
    int *live;
    explicit Param(int *l) : live(l) { ++*live; }
    Param(const Param &o) : live(o.live) { ++*live; }
    ~Param() { --*live; }
};

// ---------------------------------------------------------------------------------------------
// the scripted generator body
// ---------------------------------------------------------------------------------------------
template <typename G>
G body_fn(World<G> *w, Param) {
    constexpr bool WithArg = !G::arg_is_void;
    Counted guard(&w->loc_ctor, &w->loc_dtor);
    V var(0);                                   // the body's own variable: yielded ("yv", "ym"), re-read and extended
    struct VarReg { World<G> *w; ~VarReg() { w->bvar = nullptr; } } reg{w};
    w->bvar = &var;
    w->bst = "run";
// co_yield EXPR; with argument: what co_yield returns is the consumer's argument object (read, never copied)
#define DO_YIELD(EXPR)                                                                                   \
    do {                                                                                                 \
        w->bst = "yield";                                                                                \
        if constexpr (WithArg) { int a = co_yield EXPR; w->bst = "run"; Pause hp; w->got.push_back({w->cur, a}); } \
        else { co_yield EXPR; w->bst = "run"; }                                                          \
    } while (0)
    for (;;) {
        std::size_t pos = w->bdone.size();
        if (pos >= w->bscript.size()) { w->body_error = "body script exhausted"; co_return; }
        const std::string kind = w->bscript[pos];
        { Pause hp; w->bdone.push_back(kind); }
        if (kind == "yield") {
            int n = ++w->nyield;
            if (n & 1) { V tv(n); DO_YIELD(tv); }            // yield_value(Ret &) on a local that dies afterwards
            else DO_YIELD(V(n));                             // yield_value(Ret &&) on a temporary
        } else if (kind == "yt") {
            int n = ++w->nyield;
            DO_YIELD(V(var.id * 10 + n));                    // temporary computed from the variable
        } else if (kind == "yv") {
            int n = ++w->nyield;
            var.set(var.id * 10 + n);
            DO_YIELD(var);                                   // the variable itself; used again afterwards
        } else if (kind == "ym") {
            int n = ++w->nyield;
            var.set(var.id * 10 + n);
            DO_YIELD(std::move(var));                        // yield_value(Ret &&) bound to the variable
        } else if (kind == "ynull") {
            if constexpr (WithArg) {
                int a = co_yield nullptr;           // A & -> content
                Pause hp;
                w->got.push_back({w->cur, a});
            } else {
                co_yield nullptr;
            }
        } else if (kind == "aready") {
            int r;
            if (pos & 1) {
                r = co_await cocls::future<int>::set_value(7);
            } else {
                cocls::future<int> f;
                f.get_promise()(7);
                r = co_await f;
            }
            if (r != 7) w->body_error = "await of a resolved future returned a wrong value";
        } else if (kind == "apend") {
            int k = ++w->nawait;
            cocls::future<int> f;
            { Pause hp; w->proms[k] = f.get_promise(); }
            w->bst = "await";
            int r = co_await f;
            w->bst = "run";
            if (r != k) w->body_error = "await of a pending future returned a wrong value";
        } else if (kind.compare(0, 3, "thr") == 0) {
            body_throw(w, kind, pos);                        // the exception leaves the body
        } else if (kind == "return") {
            co_return;
        } else {
            w->body_error = "unknown body step " + kind;
            co_return;
        }
    }
#undef DO_YIELD
}

// a source generator with one item, for a body that reads it past its end
static cocls::generator<int> one_item_source() { co_yield 1; }

// what the body's throw steps do (plain function: the exception propagates through the body and leaves it); the
// exception object is remembered so that the consumer can tell it from exceptions the library creates itself
template <typename G>
[[noreturn]] void body_throw(World<G> *w, const std::string &kind, std::size_t pos) {
    try {
        if (kind == "throw") throw TestExc();
        if (kind == "thr_nomore") {
            if (pos & 1) {
                // the natural source of this type: a finished generator is called once more (generator.h:247)
                std::optional<cocls::generator<int>> src;
                { Pause hp; src.emplace(one_item_source()); }
                struct Drop { std::optional<cocls::generator<int>> &s; ~Drop() { Pause hp; s.reset(); } } drop{src};
                for (int n = 0; n < 4; n++) {
                    cocls::future<int> f = (*src)();      // item, end, then no_more_values_exception
                    if (n == 0 && (!f.has_value() || *f != 1)) w->body_error = "source generator: wrong item";
                    if (n == 1 && f.has_value()) w->body_error = "source generator: end expected";
                    if (n >= 2) w->body_error = "source generator: stepping past the end did not throw";
                }
            }
            throw cocls::no_more_values_exception();
        }
        if (kind == "thr_cancel") throw cocls::await_canceled_exception();
        if (kind == "thr_notready") throw cocls::value_not_ready_exception();
        if (kind == "thr_nolonger") throw cocls::no_longer_avaible_exception();
        if (kind == "thr_nonstd") throw NonStd{42};
        w->body_error = "unknown throw step " + kind;
        throw TestExc();
    } catch (...) {
        w->thrown = std::current_exception();
        throw;
    }
}

// the consumer's kept next() object: auto nx = gen.next();
template <typename G> struct KeptNext {
    typename G::next_awt a;
    explicit KeptNext(G &g) : a(make(g)) {}
    static typename G::next_awt make(G &g) {
        if constexpr (G::arg_is_void) return g.next();
        else return typename G::next_awt(g);       // never used: kept styles are for generators without argument
    }
};
#ifndef GEN_NO_PRIVATE
template <typename G> struct NxProbe : G::next_awt {
    static bool state(typename G::next_awt &a) { return a.*(&NxProbe::_state); }
};
#endif

// the body of the OTHER generators the object-level operations replace: a RAII local, one item, the end
template <typename G>
G aux_fn(World<G> *w, Param) {
    Counted guard(&w->aux_ctor, &w->aux_dtor);
    co_yield V(7);
}

template <typename G> struct Gate {
    World<G> *w;
    bool await_ready() const noexcept { return false; }
    void await_suspend(std::coroutine_handle<> h) noexcept { w->gate_h = h; }
    Cmd await_resume() const noexcept { return w->cmd; }
};

// callback consumers (mode cb)
template <typename G> struct CbOwner {
    World<G> *w;
    cocls::suspend_point<void> on_item(cocls::future<V> &f) noexcept { w->cb_future_done(f); return {}; }
};
template <typename G> struct FutAwt : cocls::call_fn_future_awaiter<&CbOwner<G>::on_item> {
    using base = cocls::call_fn_future_awaiter<&CbOwner<G>::on_item>;
    using base::base;
    const void *fut_address() const { return &this->_fut; }
};
template <typename G> struct SubAwt : cocls::awaiter {
    World<G> *w = nullptr;
    SubAwt() { set_resume_fn(&SubAwt::fire, nullptr); }
    static cocls::suspend_point<void> fire(cocls::awaiter *me, void *) noexcept {
        static_cast<SubAwt *>(me)->w->cb_next_done();
        return {};
    }
};

template <typename G> cocls::async<void> co_access(World<G> &w, int i);
template <typename G> cocls::async<void> co_access_kept(World<G> &w, int i);
template <typename G> cocls::async<void> consumer(World<G> &w);

// ---------------------------------------------------------------------------------------------
template <typename G>
struct World {
    static constexpr bool WithArg = !G::arg_is_void;
    using promise_type = typename G::promise_type;

    std::string mode;
    // programs
    std::vector<std::string> bscript;
    // body side
    std::vector<std::string> bdone;
    std::string bst = "init";
    int nyield = 0, nawait = 0;
    std::vector<Got> got;
    int loc_ctor = 0, loc_dtor = 0, par_live = 0;
    std::string body_error;
    std::map<int, cocls::promise<int>> proms;
    // consumer side
    std::vector<std::string> cdone;
    std::vector<Obs> obs;
    std::vector<A> args;
    V *bvar = nullptr;                               // the body's variable while it exists
    bool script_sync = true;                         // the body script never suspends on a pending operation
    int aux_ctor = 0, aux_dtor = 0, aux_par = 0;     // the generators replaced by object-level operations
    int cur = 0;                                     // number of the access made last (1-based)
    std::map<int, std::unique_ptr<cocls::future<V>>> futs;   // native: futures returned by gen()
    std::map<int, const void *> fut_addr;            // access -> address of its future
    std::optional<G> gen;
    void *frame = nullptr;
    std::string it = "none";
    std::optional<typename G::iterator> iter;
    std::optional<KeptNext<G>> kept;                 // the consumer's kept next() object
    bool kept_last = false;                          // what it told the consumer last
    std::exception_ptr thrown;                       // THE exception object that left the body
    int helpers_started = 0, helpers_finished = 0;
    std::string consumer_error;
    bool leaked = false;
    // coro mode
    std::coroutine_handle<> gate_h;
    Cmd cmd;
    bool consumer_finished = false;
    // threaded mode
    vsched sched;
    int ct = -1;
    Cmd tcmd;

    long alloc_base = 0;
    // callback mode
    CbOwner<G> cbo{this};
    FutAwt<G> cbawt{cbo};
    SubAwt<G> subawt;
    const Scenario *scp = nullptr;
    Reporter *repp = nullptr;
    std::size_t kcur = 0;
    int cb_access = 0;
    bool cb_kept = false;
    bool cb_bad = false;

    World() { obs.reserve(64); args.resize(64); for (int i = 0; i < 64; i++) args[i].set(100 + i); }

    // the body executed so far is synchronous (co_yield / co_yield nullptr / throw / return only)
    bool sync_so_far() const {
        for (auto &k : bdone) if (k != "yield" && k != "yt" && k != "yv" && k != "ym" && k != "ynull" && k.compare(0, 3, "thr") != 0 && k != "return") return false;
        return true;
    }

    promise_type &P() { return std::coroutine_handle<promise_type>::from_address(frame).promise(); }
    bool hdone() { return std::coroutine_handle<promise_type>::from_address(frame).done(); }

    // ---- observations of the consumer -----------------------------------------------------
    // called from inside a catch (...) handler: what the consumer caught.  THE object that left the body: "exc" with
    // the code of its type; otherwise an exception the library created: no_more_values_exception = the access itself
    // refused ("nomore"), value_not_ready_exception ("notready"); `canceled_is_end`: an await_canceled_exception made by a
    // future that was resolved without value is the end indication of that access form
    bool is_thrown(const std::exception_ptr &e) const { return thrown && e == thrown; }
    void caught(Obs &o, bool canceled_is_end = false) {
        std::exception_ptr e = std::current_exception();
        o.v = 0;
        if (is_thrown(e)) { o.r = "exc"; o.v = exc_code(e); return; }
        try { std::rethrow_exception(e); }
        catch (const cocls::no_more_values_exception &) { o.r = "nomore"; }
        catch (const cocls::value_not_ready_exception &) { o.r = "notready"; }
        catch (const cocls::await_canceled_exception &) { o.r = canceled_is_end ? "end" : "other_exception"; }
        catch (...) { o.r = "other_exception"; }
    }
    void observe_next(Obs &o, bool b) {
        if (b) {
            try { o.v = gen->value(); o.r = "val"; }
            catch (...) { caught(o); if (o.r == "nomore") o.r = "other_exception"; }
        } else {
            // end reported: there must be no value either
            try { o.v = gen->value(); }
            catch (const cocls::value_not_ready_exception &) { o.v = is_thrown(std::current_exception()) ? 999 : 0; }
            catch (...) { o.v = 999; }
            o.r = "end";
        }
    }
    void observe_future(Obs &o, cocls::future<V> &f, int i) {
        if (!f.ready()) return;
        bool hv = f.has_value();
        if (bool(f) != hv || (!f) == hv) { o.r = "has_value_inconsistent"; return; }
        if (!hv) {
            try { (void) f.value(); o.r = "end_with_value"; }
            catch (const cocls::await_canceled_exception &) {
                if (is_thrown(std::current_exception())) o.r = "end_with_exception"; else { o.r = "end"; o.v = 0; }
            }
            catch (...) { o.r = "end_other_exception"; }
        } else {
            try { o.v = (i & 1) ? *f : f.value(); o.r = "val"; }
            catch (...) { caught(o); if (o.r != "exc") o.r = "other_exception"; }
        }
    }

    // how access i passes its argument: 0 an lvalue, 1 a temporary (prvalue), 2 std::move(named object).  A temporary
    // is only legal where the library documents it -- the result is consumed in the same full expression (the
    // conversion to bool, the co_await, a gen() call on a body that does not outlast the call); elsewhere 1 becomes 2
    static int arg_form(int i, bool prvalue_ok) { int f = i % 3; return (f == 1 && !prvalue_ok) ? 2 : f; }
    auto next_(int i) {                 // forms 0 / 2 only: the awaitable outlives this function
        if constexpr (WithArg) {
            if (i % 3) return gen->next(std::move(args[i]));
            return gen->next(args[i]);
        } else return gen->next();
    }
    cocls::future<V> call_(int i) {
        if constexpr (WithArg) {
            switch (arg_form(i, script_sync)) {
                case 1: return (*gen)(A(100 + i));
                case 2: return (*gen)(std::move(args[i]));
                default: return (*gen)(args[i]);
            }
        } else return (*gen)();
    }

    // if (gen.next()) v = gen.value();
    void sync_access(int i) {
        Obs &o = obs[i - 1];
        Win win;
        try {
            if constexpr (WithArg) {
                if (arg_form(i, true) == 1) {
                    if (gen->next(A(100 + i))) observe_next(o, true);     // temporary, consumed in the same expression
                    else observe_next(o, false);
                    return;
                }
            }
            if ((i & 1) || WithArg) {
                auto a = next_(i);
                bool nb = !a;        // the first conversion advances the generator ...
                bool b = a;          // ... the second must not
                if (nb == b) { o.r = "bool_inconsistent"; return; }
                observe_next(o, b);
            } else if constexpr (!WithArg) {
                if (gen->next()) observe_next(o, true);
                else observe_next(o, false);
            }
        } catch (...) { caught(o); }
    }

    // if (nx) v = gen.value();  on the kept object: made at the first use; a conversion after the object said "item
    // loaded" does not ask the generator again -- the consumer reads the item it has once more ("again")
    void kept_make() { if (!kept) { kept.emplace(*gen); kept_last = false; } }
    void kbool_access(int i) {
        Obs &o = obs[i - 1];
        Win win;
        try {
            kept_make();
            bool again = kept_last;
            bool b;
            if (i & 1) b = bool(kept->a); else b = !(!kept->a);
            kept_last = b;
            if (!again) { observe_next(o, b); return; }
            if (!b) { o.r = "again_lost"; return; }
            try { o.v = gen->value(); o.r = "again"; }
            catch (...) { caught(o); if (o.r == "exc") { o.r = "again"; o.v += 900; } else o.r = "again_other_exception"; }
        } catch (...) { caught(o); }
    }

    // explicit iterator: it = gen.begin(); ++it; it++; it != gen.end(); *it
    void iter_access(Kind kind, int i) {
        if constexpr (!WithArg) {
            Obs &o = obs[i - 1];
            Win win;
            try {
                if (kind == K_BEGIN) iter.emplace(gen->begin());
                else if (kind == K_INC) ++*iter;
                else { auto z = (*iter)++; o.p = z._v; }   // *z does not compile (iterator.h:52: T& from a const member)
                bool b = *iter != gen->end();
                if ((*iter == gen->end()) == b) { o.r = "iter_cmp_inconsistent"; return; }
                it = b ? "true" : "false";
                if (b) {
                    try { o.v = **iter; o.r = "val"; }
                    catch (...) { caught(o); if (o.r == "nomore") o.r = "other_exception"; }
                } else observe_next(o, false);
            } catch (...) { caught(o); }
        }
    }

    // f = gen(); kept; looked at when ready
    void future_access(int i) {
        Obs &o = obs[i - 1];
        // the future object is the consumer's: its storage is obtained outside the measured access
        auto &slot = futs[i];
        void *mem = ::operator new(sizeof(cocls::future<V>));
        fut_addr[i] = mem;
        try {
            {
                Win win;
                try { new (mem) cocls::future<V>(call_(i)); }
                catch (...) { ::operator delete(mem); fut_addr.erase(i); throw; }
            }
            slot.reset(static_cast<cocls::future<V> *>(mem));
            // own thread: every other future is waited for like `*gen()` does (blocks in the future's
            // sync_awaiter until the body, continued by the completing thread, has yielded or ended)
            if (ct >= 0 && (i & 1)) futs[i]->sync();
        } catch (...) { caught(o); if (o.r != "nomore") o.r = "other_exception"; futs.erase(i); }
    }

    void poll_futures() {
        for (auto &kv : futs) {
            if (!kv.second) continue;
            Obs &o = obs[kv.first - 1];
            if (o.r == "pending") { Win win; observe_future(o, *kv.second, kv.first); }
        }
    }

    // operations on the generator OBJECT (spec: ObjOp).  The other generator is made in the required state by plain
    // sync accesses; afterwards consumption continues through `gen`, which is re-made from the object that ended up
    // owning the scripted coroutine.
    bool aux_step(G &t) {
        if constexpr (WithArg) return bool(t.next(args[0]));
        else return bool(t.next());
    }
    void obj_op(int kind) {
        iter.reset(); it = "none";
        kept.reset();                          // refers to the object that is about to be moved from
        const std::string k = OBJ_KINDS[kind];
        if (k == "movector") {
            G b(std::move(*gen));
            gen.reset();                       // the moved-from object: empty, destructible
            gen.emplace(std::move(b));
            return;
        }
        std::optional<G> t;
        const std::string state = k.substr(k.find('_') + 1);
        if (state == "empty") t.emplace();
        else {
            t.emplace(aux_fn<G>(this, Param(&aux_par)));
            if (state == "yield" || state == "final") aux_step(*t);          // parked at its co_yield
            if (state == "final") { aux_step(*t); if (!t->done()) consumer_error = "auxiliary generator did not finish"; }
        }
        if (k[0] == 'a') {
            *t = std::move(*gen);              // the coroutine t owned is destroyed here, exactly once
            gen.reset();                       // moved-from
        } else {
            std::swap(*gen, *t);
            gen.reset();                       // the object that now owned t's former coroutine
        }
        gen.emplace(std::move(*t));
        t.reset();
    }
    // the end of the generator object.  Every other time the parked generator is first REPLACED by move assignment
    // (g = other(); what vector::erase does to its elements): the coroutine it owned is destroyed by the assignment,
    // exactly once; the never started newcomer then dies with the object
    void destroy_gen() {
        iter.reset();
        kept.reset();
        if (gen && (cur & 1)) *gen = aux_fn<G>(this, Param(&aux_par));
        gen.reset();
    }
    void exec_native(const Cmd &c) {
        if (c.kind == K_OBJ) { obj_op(c.idx); return; }
        if (c.kind != K_DESTROY && !iter && !kept && (c.idx & 1) == 0) {
            G tmp = std::move(*gen);       // generators are movable; adapters created later refer to the new object
            gen.emplace(std::move(tmp));
        }
        switch (c.kind) {
            case K_SYNC: sync_access(c.idx); break;
            case K_BEGIN: case K_INC: case K_POSTINC: iter_access(c.kind, c.idx); break;
            case K_COAWAIT: helpers_started++; co_access<G>(*this, c.idx).detach(); break;
            case K_KBOOL: kbool_access(c.idx); break;
            case K_KCO: { Pause hp; kept_make(); } helpers_started++; co_access_kept<G>(*this, c.idx).detach(); break;
            case K_FUTURE: future_access(c.idx); break;
            case K_DESTROY: destroy_gen(); break;
            default: break;
        }
    }

    // ---- callback mode --------------------------------------------------------------------
    bool check_inside(std::size_t k) {        // step comparison made from inside an access: harness work
        Pause hp;
        return repp->check(k, project());
    }
    // an access has completed (callback ran / completed without suspension): compare, then the consumer asks
    // for the next item right away if the next access is a callback-style one
    void cb_completed() {
        if (cb_bad) return;
        std::size_t k = kcur;
        if (!check_inside(k)) { cb_bad = true; return; }
        kcur = k + 1;
        if (kcur >= scp->steps.size()) return;
        const Step &st = scp->steps[kcur];
        if (st.name == "NextFuture") cb_issue(K_FUTURE);
        else if (st.name == "NextAsync") cb_issue(async_kind(st));
    }
    void cb_future_done(cocls::future<V> &f) {
        Obs &o = obs[cb_access - 1];
        if (!f.has_value()) { o.r = "end"; o.v = 0; }
        else {
            try { o.v = *f; o.r = "val"; }
            catch (...) { caught(o); if (o.r != "exc" && o.r != "nomore") o.r = "other_exception"; }   // nomore: thrown by gen(), stored by operator<<
        }
        cb_completed();
    }
    void cb_next_done() {
        if (cb_kept) { bool b = kept->a.await_resume(); kept_last = b; observe_next(obs[cb_access - 1], b); }
        else observe_next(obs[cb_access - 1], !gen->done());
        cb_completed();
    }
    void cb_issue(Kind kind) {
        std::size_t k = kcur;
        int i;
        {
            Pause hp;
            i = ++cur;
            cdone.push_back(style_name(kind));
            obs.emplace_back();
            cb_access = i;
            cb_kept = kind == K_KCO;
            if (cb_kept) kept_make();
            fut_addr.clear();
            if (kind == K_FUTURE) fut_addr[i] = cbawt.fut_address();
        }
        bool inline_done = false;
        {
            Win win;
            if (kind == K_FUTURE) {
                cbawt << [&] { return call_(i); };       // an exception of gen() becomes the future's result
            } else if (kind == K_KCO) {
                // the kept object used as what it is, an awaiter: await_ready / subscribe / await_resume by hand
                try {
                    auto &a = kept->a;
                    if (a.await_ready()) { bool b = a.await_resume(); kept_last = b; observe_next(obs[i - 1], b); inline_done = true; }
                    else a.subscribe(&subawt);
                } catch (...) { caught(obs[i - 1]); if (obs[i - 1].r != "nomore") obs[i - 1].r = "other_exception"; inline_done = true; }
            } else {
                try {
                    auto a = next_(i);
                    if (a.await_ready()) { observe_next(obs[i - 1], a.await_resume()); inline_done = true; }
                    else a.subscribe(&subawt);
                } catch (...) { caught(obs[i - 1]); if (obs[i - 1].r != "nomore") obs[i - 1].r = "other_exception"; inline_done = true; }
            }
            if (inline_done) cb_completed();
        }
        if (!cb_bad && kcur == k) {              // still outstanding: nothing has compared this step yet
            if (!check_inside(k)) cb_bad = true;
            kcur = k + 1;
        }
    }
    void run_cb(const Scenario &sc, Reporter &rep) {
        scp = &sc; repp = &rep; subawt.w = this;
        kcur = 0;
        while (kcur < sc.steps.size() && !cb_bad) {
            std::size_t k = kcur;
            const Step &st = sc.steps[k];
            Cmd c;
            if (st.name == "NextFuture") cb_issue(K_FUTURE);
            else if (st.name == "NextAsync") cb_issue(async_kind(st));
            else if (parse_cmd(st, c)) {
                if (is_access(c.kind)) {
                    c.idx = ++cur;
                    cdone.push_back(style_name(c.kind));
                    obs.emplace_back();
                }
                exec_native(c);
                if (!rep.check(k, project())) cb_bad = true;
                kcur = k + 1;
            } else if (st.name == "ExternalResolve") {
                resolve(st.iarg(0));
                if (!cb_bad && kcur == k) {          // the body suspended again without handing anything over
                    if (!rep.check(k, project())) cb_bad = true;
                    kcur = k + 1;
                }
            } else { rep.error(k, "unknown action"); cb_bad = true; break; }
            // everything has unwound to the driver: the state must still be the one after the last step made
            if (!cb_bad && kcur > k + 1 && !rep.check(kcur - 1, project())) cb_bad = true;
        }
        if (cb_bad) { leaked = true; return; }
        iter.reset();
        kept.reset();
        gen.reset();
        if (par_live != 0 || loc_ctor != loc_dtor) rep.diverge(sc.steps.size() - 1, "locals/parameters not destroyed exactly once at the end");
    }

    // ---- coro mode ------------------------------------------------------------------------
    bool send(const Cmd &c) {
        if (!gate_h) return false;
        cmd = c;
        auto h = std::exchange(gate_h, nullptr);
        cocls::coro_queue::resume(h);
        return true;
    }

    // ---- threaded mode --------------------------------------------------------------------
    bool at_cmd_mark() {
        const auto &e = sched.pending(ct);
        return sched.parked(ct) && e.op == op_t::mark && !strcmp(e.tag, "cmd");
    }
    // lets the consumer thread run until it is back at its command mark (true) or blocked (false)
    bool continue_consumer() {
        for (int fuel = 0; fuel < 100000; fuel++) {
            if (sched.done(ct) || at_cmd_mark()) return true;
            if (!sched.enabled(ct)) return false;
            sched.step(ct);
        }
        return false;
    }
    bool run_command(const Cmd &c) {
        tcmd = c;
        sched.step(ct);   // leave the command mark
        return continue_consumer();
    }

    void resolve(int k) {
        auto itp = proms.find(k);
        if (itp == proms.end()) { consumer_error = "no pending operation " + std::to_string(k); return; }
        cocls::promise<int> p = std::move(itp->second);
        proms.erase(itp);
        p(k);     // the returned suspend point is discarded: the body is resumed in here
    }

    // ---- projection -----------------------------------------------------------------------
    std::string body_state() {
        if (!gen) return "gone";
        if (hdone()) return "final";
        return bst;
    }

    J project() {
        J m = J::map();
        m.set("alive", bool(gen));
        m.set("bscript", J::list(bdone.begin(), bdone.end()));
        m.set("cscript", J::list(cdone.begin(), cdone.end()));
        std::string bs = body_state();
        m.set("bst", bs);
        J g = J::list();
        for (auto &x : got) { J e = J::map(); e.set("a", x.a); e.set("v", x.v); g.push(e); }
        m.set("got", g);
        m.set("it", it);
#ifndef GEN_NO_PRIVATE
        m.set("nx", !kept ? "none" : NxProbe<G>::state(kept->a) ? "item" : "unknown");
#else
        m.set("nx", !kept ? "none" : kept_last ? "item" : "unknown");
#endif
        J l = J::map();
        l.set("ctor", loc_ctor); l.set("dtor", loc_dtor);
        m.set("loc", l);
        J ol = J::list();
        for (auto &o : obs) { J e = J::map(); e.set("p", o.p); e.set("r", o.r); e.set("v", o.v); ol.push(e); }
        m.set("obs", ol);
        m.set("par", par_live);
        // payload: copy / move constructions made since the scenario started (V: yielded objects, A: arguments), the
        // body's own variable, and the public view of the current item
        m.set("cp", V::copies.load());      // (moves are not compared: whether `return z` in it++ is elided is the compiler's choice;
                                            //  a move FROM a yielded object shows in its content: "val", "var", later items)
        m.set("aops", A::copies.load() + A::moves.load());
        J aux = J::map();
        aux.set("ctor", aux_ctor); aux.set("dtor", aux_dtor); aux.set("par", aux_par);
        m.set("aux", aux);
        J var = J::map();
        var.set("id", bvar ? bvar->id : 0);
        var.set("m", bvar ? bvar->moved : false);
        m.set("var", var);
        int val = 0;
        if (gen && bs == "yield") {
            try { val = gen->value().id; } catch (...) { val = -2; }
        }
        m.set("val", val);
        if (sync_so_far()) m.set("allocs", g_lib_allocs.load() - alloc_base);
        J pr = J::map();
#ifndef GEN_NO_PRIVATE
        if (gen) {
            promise_type &p = P();
            cocls::awaiter *caller = p.*Stolen<T_caller<G>>::value;
            cocls::malleable_awaiter &internal = p.*Stolen<T_internal<G>>::value;
            pr.set("caller", caller == nullptr ? "null" : caller == &internal ? "internal" : "awt");
            auto fn = AwProbe::fn_of(internal);
            pr.set("ifn", fn == Stolen<T_fn_sync<G>>::value ? "sync" : fn == Stolen<T_fn_future<G>>::value ? "future" : "none");
            if constexpr (WithArg) {
                // identified by address: after an access on a finished generator _arg still points at the argument
                // object, which may have been a temporary
                A *a = p.*Stolen<T_arg<G>>::value;
                pr.set("arg", a == nullptr ? 0 : (a >= args.data() && a < args.data() + args.size()) ? a->id : A::content_at(a));
            } else pr.set("arg", 0);
            V *r = p.*Stolen<T_ret<G>>::value;
            pr.set("ret", r == nullptr ? 0 : bs == "yield" ? r->id : -1);
            pr.set("exp", bool(p.*Stolen<T_exp<G>>::value));
            pr.set("done", p.*Stolen<T_done<G>>::value);
            pr.set("block", (p.*Stolen<T_block<G>>::value).verif_peek());
            const void *aw = (p.*Stolen<T_awaiting<G>>::value).get_id();
            int awi = 0;
            if (aw) { awi = -1; for (auto &kv : fut_addr) if (kv.second == aw) awi = kv.first; }
            pr.set("awaiting", awi);
            // public observers must agree with the record
            if (gen->done() != (p.*Stolen<T_done<G>>::value) || bool(*gen) == gen->done()) m.set("done_mismatch", true);
        }
#endif
        m.set("pr", pr);
        if (!body_error.empty()) m.set("body_error", body_error);
        if (!consumer_error.empty()) m.set("consumer_error", consumer_error);
        return m;
    }

    // ---- driver ---------------------------------------------------------------------------
    static bool parse_cmd(const Step &st, Cmd &c) {
        if (st.name == "NextSync") {
            const std::string &s = st.sarg(0);
            c.kind = s == "sync" ? K_SYNC : s == "begin" ? K_BEGIN : s == "inc" ? K_INC : s == "postinc" ? K_POSTINC :
                     s == "kbool" ? K_KBOOL : K_QUIT;
            return c.kind != K_QUIT;
        }
        if (st.name == "NextAsync") { c.kind = async_kind(st); return true; }
        if (st.name == "NextFuture") { c.kind = K_FUTURE; return true; }
        if (st.name == "Destroy") { c.kind = K_DESTROY; return true; }
        if (st.name == "ObjOp") {
            for (int k = 0; k < 8; k++) if (st.sarg(0) == OBJ_KINDS[k]) { c.kind = K_OBJ; c.idx = k; return true; }
        }
        return false;
    }
    static Kind async_kind(const Step &st) { return st.sarg(0) == "kco" ? K_KCO : K_COAWAIT; }
    static const char *style_name(Kind k) {
        switch (k) {
            case K_KBOOL: return "kbool"; case K_KCO: return "kco";
            case K_SYNC: return "sync"; case K_BEGIN: return "begin"; case K_INC: return "inc";
            case K_POSTINC: return "postinc"; case K_COAWAIT: return "coawait"; case K_FUTURE: return "future";
            default: return "?";
        }
    }

    void run(const Scenario &sc, Reporter &rep, const std::string &mode_) {
        mode = mode_;
        V::reset_counters(); A::reset_counters();
        t_window = 0; t_pause = 0;
        bdone.reserve(16); got.reserve(16); cdone.reserve(16);
        alloc_base = g_lib_allocs.load();
        bool threaded = mode == "thr_late" || mode == "thr_early";
        if (!sc.steps.empty()) {
            JV last = JReader(sc.steps.back().expected).parse();
            for (auto &x : last.at("bscript").l) bscript.push_back(x.s);
            for (auto &k : bscript) if (k == "apend") script_sync = false;
        }
        gen.emplace(body_fn<G>(this, Param(&par_live)));
        frame = const_cast<void *>(gen->get_id());
        if (mode == "cb") { run_cb(sc, rep); return; }
        if (mode == "coro") consumer<G>(*this).detach();
        if (threaded) {
            sched.log_enabled = false;
            sched.install();
            ct = sched.spawn([this] {
                (void) cocls::coro_queue::queue_impl::instance._queue.size();
                for (;;) {
                    vsched::mark("cmd");
                    if (tcmd.kind == K_QUIT) break;
                    exec_native(tcmd);
                }
            });
        }
        bool bad = false;
        for (std::size_t k = 0; k < sc.steps.size() && !bad; k++) {
            const Step &st = sc.steps[k];
            Cmd c;
            if (parse_cmd(st, c)) {
                if (is_access(c.kind)) {
                    c.idx = ++cur;
                    cdone.push_back(style_name(c.kind));
                    obs.emplace_back();
                }
                if (mode == "coro") {
                    if (!send(c)) { rep.diverge(k, "consumer coroutine is not ready for the next access got=" + project().dump()); bad = true; break; }
                } else if (threaded) {
                    if (!at_cmd_mark()) { rep.diverge(k, "consumer thread is still inside the previous access got=" + project().dump()); bad = true; break; }
                    run_command(c);
                } else exec_native(c);
            } else if (st.name == "ExternalResolve") {
                int kk = st.iarg(0);
                if (mode == "thr_early") {
                    // the completing call runs on a second managed thread; it is stopped right after
                    // unblock_sync stored _block (before notify_all and before it unwinds out of the
                    // body), the released consumer finishes its access, then the completer finishes
                    int rt = sched.spawn([this, kk] { resolve(kk); });
                    for (int fuel = 0; fuel < 100000 && !sched.done(rt); fuel++) {
                        const auto &e = sched.pending(rt);
                        if (e.op == op_t::notify && strstr(e.func, "unblock_sync")) break;
                        if (!sched.enabled(rt)) break;
                        sched.step(rt);
                    }
                    continue_consumer();
                    for (int fuel = 0; fuel < 100000 && !sched.done(rt) && sched.enabled(rt); fuel++) sched.step(rt);
                    if (!sched.done(rt)) { rep.diverge(k, "completing thread is stuck got=" + project().dump()); bad = true; break; }
                    continue_consumer();
                } else if (mode == "coro" && gate_h) {
                    // the consumer coroutine is not suspended in an access (it keeps a pending future
                    // without awaiting it): it completes the operation itself, in coroutine context --
                    // the body is then only queued and runs when the consumer suspends next
                    send(Cmd{K_RESOLVE, kk});
                } else {
                    resolve(kk);
                    if (threaded) continue_consumer();
                }
            } else {
                rep.error(k, "unknown action");
                bad = true;
                break;
            }
            poll_futures();
            if (!rep.check(k, project())) bad = true;
        }
        // ---- tear down -------------------------------------------------------------------------
        if (bad) {
            // the real objects are in a state the specification does not know: nothing can be torn down
            // safely (parked coroutines, a possibly blocked thread); the world is leaked
            if (threaded) sched.uninstall();
            leaked = true;
            return;
        }
        if (threaded) {
            bool ok = continue_consumer();
            if (ok && !sched.done(ct)) ok = run_command(Cmd{K_QUIT, 0});
            bool drained = ok && sched.drain();
            sched.uninstall();
            if (!drained) {
                // cannot unwind: a blocked thread references the world
                rep.diverge(sc.steps.size() - 1, "consumer thread blocked at the end of the scenario got=" + project().dump());
                leaked = true;
                return;
            }
            sched.join_all();
        }
        if (mode == "coro") {
            if (gate_h) send(Cmd{K_DESTROY, 0});
            if (gate_h) send(Cmd{K_QUIT, 0});
            if (!consumer_finished && !bad) { rep.diverge(sc.steps.size() - 1, "consumer coroutine never came back got=" + project().dump()); bad = true; }
        }
        iter.reset();
        kept.reset();
        gen.reset();
        futs.clear();
        if (!bad) {
            if (helpers_started != helpers_finished) rep.diverge(sc.steps.size() - 1, "a co_awaiting consumer was never resumed");
            else if (par_live != 0 || loc_ctor != loc_dtor) rep.diverge(sc.steps.size() - 1, "locals/parameters not destroyed exactly once at the end");
        }
    }
};

// co_await gen.next(args...) made by a coroutine of its own (native / threaded modes)
template <typename G>
cocls::async<void> co_access(World<G> &w, int i) {
    ++t_window;      // the access (the helper's own frame was allocated before)
    try {
        bool b;
        if constexpr (World<G>::WithArg) {
            switch (World<G>::arg_form(i, true)) {
                case 1: b = co_await w.gen->next(A(100 + i)); break;              // the temporary lives in this frame
                case 2: b = co_await w.gen->next(std::move(w.args[i])); break;
                default: b = co_await w.gen->next(w.args[i]); break;
            }
        } else b = co_await w.gen->next();
        w.observe_next(w.obs[i - 1], b);
    } catch (...) {
        w.caught(w.obs[i - 1]);
    }
    --t_window;
    w.helpers_finished++;
}

// co_await nx on the consumer's KEPT next() object, by a coroutine of its own (native / threaded modes): the object is
// awaited again and again, by a different coroutine each time
// (a function of its own: g++ 12 mishandles a co_await of a temporary that shares a statement list with other co_awaits)
template <typename G>
cocls::async<void> co_access_kept(World<G> &w, int i) {
    ++t_window;
    try {
        auto &nx = w.kept->a;        // (a named reference: g++ 12 also mishandles co_await of `opt->member` directly)
        bool b = co_await nx;
        w.kept_last = b;
        w.observe_next(w.obs[i - 1], b);
    } catch (...) {
        w.caught(w.obs[i - 1]);
    }
    --t_window;
    w.helpers_finished++;
}

// the consumer as one coroutine
template <typename G>
cocls::async<void> consumer(World<G> &w) {
    constexpr bool WithArg = World<G>::WithArg;
    bool have = false;
    Cmd c;
    for (;;) {
        if (!have) c = co_await Gate<G>{&w};
        have = false;
        if (c.kind == K_QUIT) break;
        int i = c.idx;
        switch (c.kind) {
            case K_SYNC: w.sync_access(i); break;
            case K_KBOOL: w.kbool_access(i); break;
            case K_KCO: {
                // auto nx = gen.next(); for (;;) { bool b = co_await nx; ... }   (not `while (co_await ...)`: g++ 12)
                ++t_window;
                try {
                    w.kept_make();
                    auto &nx = w.kept->a;
                    bool b = co_await nx;
                    w.kept_last = b;
                    w.observe_next(w.obs[i - 1], b);
                } catch (...) { w.caught(w.obs[i - 1]); }
                --t_window;
            } break;
            case K_COAWAIT: {
                ++t_window;
                try {
                    bool b;
                    if constexpr (WithArg) {
                        switch (World<G>::arg_form(i, true)) {
                            case 1: b = co_await w.gen->next(A(100 + i)); break;
                            case 2: b = co_await w.gen->next(std::move(w.args[i])); break;
                            default: b = co_await w.gen->next(w.args[i]); break;
                        }
                    } else b = co_await w.gen->next();
                    w.observe_next(w.obs[i - 1], b);
                } catch (...) { w.caught(w.obs[i - 1]); }
                --t_window;
            } break;
            case K_RESOLVE: w.resolve(c.idx); break;
            case K_FUTURE: {
                if (i % 3 == 0) { w.future_access(i); break; }     // kept, not awaited; looked at when ready
                { Pause hp; w.fut_addr[i] = nullptr; }             // map node: consumer's bookkeeping
                ++t_window;
                try {
                    if (i & 1) {
                        // keep the future, ask it
                        cocls::future<V> f = w.call_(i);
                        w.fut_addr[i] = &f;
                        bool hv = co_await f.has_value();
                        Obs &o = w.obs[i - 1];
                        if (!hv) { o.r = "end"; o.v = 0; }
                        else {
                            try { o.v = *f; o.r = "val"; }
                            catch (...) { w.caught(o); if (o.r != "exc") o.r = "other_exception"; }
                        }
                    } else {
                        // co_await the future directly
                        Obs &o = w.obs[i - 1];
                        cocls::future<V> f = w.call_(i);
                        w.fut_addr[i] = &f;
                        // (a future resolved without value throws await_canceled_exception here: the end indication of
                        //  this form, unless it is the very exception the body threw)
                        try { o.v = co_await f; o.r = "val"; }
                        catch (...) { w.caught(o, true); if (o.r != "exc" && o.r != "end") o.r = "other_exception"; }
                    }
                } catch (...) { w.caught(w.obs[i - 1]); if (w.obs[i - 1].r != "nomore") w.obs[i - 1].r = "other_exception"; }
                --t_window;
                { Pause hp; w.fut_addr.erase(i); }
            } break;
            case K_BEGIN: {
                if constexpr (!WithArg) {
                    bool entered = false;
                    WinFlag win;
                    try {
                        win.on();
                        for (V &v : *w.gen) {
                            entered = true;
                            w.obs[i - 1].v = v;
                            w.obs[i - 1].r = "val";
                            w.it = "true";
                            win.off();
                            c = co_await Gate<G>{&w};
                            if (c.kind != K_INC) { have = true; break; }
                            i = c.idx;
                            win.on();
                        }
                        if (!have) { w.it = "false"; w.observe_next(w.obs[i - 1], false); }
                        win.off();
                        if (!have) w.iter.emplace(*w.gen, false);
                        else w.iter.emplace(*w.gen, true);      // equivalent of the abandoned loop iterator
                    } catch (...) {
                        // out of the range-for: THE exception of the body (thrown by *it) or the refusal of begin() / ++it
                        win.off();
                        w.caught(w.obs[i - 1]);
                        if (w.obs[i - 1].r == "exc") { w.it = "true"; w.iter.emplace(*w.gen, true); }
                        else if (w.obs[i - 1].r == "nomore") { if (entered) w.iter.emplace(*w.gen, true); }
                    }
                }
            } break;
            case K_INC: case K_POSTINC: w.iter_access(c.kind, i); break;
            case K_DESTROY: w.destroy_gen(); break;
            case K_OBJ: w.obj_op(c.idx); break;
            default: break;
        }
    }
    w.consumer_finished = true;
}

template <typename G>
static void run_modes(const Scenario &sc, Reporter &rep) {
    const JV &modes = sc.hdr.at("modes");
    std::vector<std::string> ms;
    for (auto &m : modes.l) ms.push_back(m.s);
    if (ms.empty()) ms.push_back("native");
    for (auto &m : ms) {
        if (rep.failed()) break;
        int vlive = V::live.load(), alive_args = A::live.load();
        {
            auto w = std::make_unique<World<G>>();
            w->run(sc, rep, m);
            if (w->leaked) { (void) w.release(); continue; }
        }
        // every payload object made during the scenario (yielded objects, the futures' copies, it++ storages) is gone
        if (!rep.failed() && (V::live.load() != vlive || A::live.load() != alive_args))
            rep.diverge(sc.steps.size() - 1, "payload objects not destroyed: " + std::to_string(V::live.load() - vlive) +
                        " value(s), " + std::to_string(A::live.load() - alive_args) + " argument(s) left in mode " + m);
    }
}

int main() {
    return replay_main(std::cin, [](const Scenario &sc, Reporter &rep) {
        alarm(20);   // watchdog only: a scenario takes milliseconds; a hang (e.g. a blocking access that is never
                     // released) kills the replayer inside the scenario, which the driver reports
        if (sc.hdr.at("witharg").as_bool()) run_modes<G1>(sc, rep);
        else run_modes<G0>(sc, rep);
    });
}
