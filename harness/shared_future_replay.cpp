// shared_future_replay.cpp -- replays schedules of spec/SharedFuture/SharedFuture.tla on the real
// cocls::shared_future<Counted> with real threads under the controlled scheduler at the finest grain
// (vsched yield_after: a step before AND after every instrumented atomic operation, so the local code
// between two atomic operations -- which contains the shared_ptr reference count operations -- is a
// step of its own).
//
// header: {"H":["h1",..],"ctor":"h1"}
// first step: Setup(mode, rkind)   mode: fn|fnsync|retfut|async|asyncsync|setval|setexc|factthrow|late|init|shl
//                                  rkind: val|exc|drop|dtor|unwind|final|none
//   builds the world: the constructing thread runs its constructor up to the first scheduling point
// other step labels: Action(thread[,thread])   threads: "r" (resolver), the names in H
// BeginWait(h, form): the blocking waiter through one of shared_future's own blocking entry points
//   wait     f.wait()                            the call returns the value / throws
//   fwait    f.force_wait()   (coroutine mode)   the call returns the value / throws
//   join     f.join()                            throws as wait(); "same as wait()": a returned reference is used
//                                                when join() has one, otherwise (as found: no return statement,
//                                                the deduced type is void) the value is read through value()
//   syncval  f.sync(); f.value()                 sync() hands nothing over, the result is read afterwards
//   fsync    f.force_sync()   (coroutine mode)   nothing handed over, nothing read: observation "synced"
//   "coroutine mode": the call is made under coro_queue::install_queue_and_call (coro_queue::is_active() is
//   true, the situation the force_ forms exist for; no coroutine frame is allocated)
// rounds: ReArmShl(h, kind|"ready"|"readyexc"|"readynone"|"throws") = `f << fn` through a handle of the resolved state
//   (fn returns a pending future / a ready one with a value, an exception, no value / throws); ReArmAssign(h, kind) =
//   `f = shared_future(fn)` by the sole holder (the new state is built in a spare slot, copy-assigned, the
//   spare handle destroyed; the probe is re-bound to the new state as soon as its constructor is parked at
//   the charge CAS).  Every round has its own resolver thread and its own value ids ("r","r2","r3" /
//   "sv2","sv3"); the per-awaiter observations are reset when a round starts.
// projection after each step:
//   {"chain":"ready"|[nodes from top]|"-","cref":{h:0|1},"heap":n,"live":n,"nh":{h:n},"pend":{t:..},
//    "resumes":{obs:n},"seen":{obs:{"tag","payload"}},"st":"none|alive|freed","tag","payload","use":n,"vd":n}
//   use   std::shared_ptr use count of the control block (0 when there is no live state)
//   st    whether the shared state exists / has been destroyed and freed
//   live  live instances of the stored value type, vd = destructions of it
//   heap  operator new minus operator delete calls made on the scenario's threads
//         (= live shared state + live coroutine frames)
//   cref  the frame of the thread's coroutine (it holds a handle) exists
//   threw whether the thread's blocking call of this round left by an exception ("none": it has not returned)
//   one   every live handle refers to the state the probe was bound to when the first handle appeared
//         (get_promise() on an initialised object must keep the state: the use count, the chain and the
//         stored result in the projection are always those of that first state)
//
// How the reference count is observed without disturbing it: plain build -- a std::weak_ptr<void>
// made from the protected shared_ptr member (weak references do not keep the object alive but keep
// the memory block, so this build cannot see a use-after-free of the *memory*); ASan build -- no
// weak_ptr: the address of the control block is remembered, ASan is asked whether that memory has
// been freed (__asan_address_is_poisoned) and the use count is read through the raw pointer only
// while it has not, so every access of the library to the freed state aborts the replay.
#define REPLAY_COUNT_ALLOCS
#include <cocls/shared_future.h>
#include <cocls/future.h>
#include <cocls/async.h>
#include <cocls_verif/vsched.h>
#include "replay_common.h"

#include <optional>

#if defined(__SANITIZE_ADDRESS__)
#include <sanitizer/asan_interface.h>
#define C17_ASAN 1
#else
#define C17_ASAN 0
#endif

using namespace rp;
using cocls_verif::vsched;
using cocls_verif::op_t;

// ---- instance counted value / exception types -------------------------------------------------
struct Counted {
    static inline std::atomic<int> live{0}, dtors{0}, copies{0};
    int id;
    explicit Counted(int i) : id(i) { live++; }
    Counted(const Counted &o) : id(o.id) { live++; copies++; }
    Counted(Counted &&o) noexcept : id(o.id) { live++; copies++; }
    // the id of a destroyed instance is poisoned (volatile: not removed as a dead store), so a read through
    // a dangling reference is visible in what the reader reports even when the memory is still mapped
    ~Counted() { live--; dtors++; *const_cast<volatile int *>(&id) = -99; }
};

struct TestExc : std::exception {
    static inline std::atomic<int> live{0};
    int who;
    explicit TestExc(int w) : who(w) { live++; }
    TestExc(const TestExc &o) : std::exception(o), who(o.who) { live++; }
    ~TestExc() override { live--; }
};

using SF = cocls::shared_future<Counted>;
using Base = cocls::future<Counted>;

// ---- probes ------------------------------------------------------------------------------------
struct SProbe : SF {
    static auto ptr_mp() { return &SProbe::_ptr; }
};
struct FProbe : Base {
    static auto slot_mp() { return &FProbe::_awaiter; }
    static auto state_mp() { return &FProbe::_state; }
    static auto value_mp() { return &FProbe::_value; }
    static auto exc_mp() { return &FProbe::_exception; }
};

static const char *pname(int id) {
    switch (id) {
        case 1: return "r";
        case 2: return "fn";
        case 3: return "sv";
        case 4: return "coro";
        case 5: return "ft";
        case 32: return "ft2";
        case 33: return "ft3";
        case 12: return "r2";
        case 13: return "r3";
        case 22: return "sv2";
        case 23: return "sv3";
        default: return "?";
    }
}

// ---- scheduling points -------------------------------------------------------------------------
static thread_local bool tl_ctor = false;   // the thread is inside a shared_future constructor / get_promise()
static thread_local bool tl_mark = false;

// Operations that are no scheduling points (executed without giving up the run token):
//  * a harness mark yields before it, never after it (the mark itself does nothing);
//  * future_common::pending() is a scheduling point only where the implementation decides from it
//    (shared_future.h:109, inside the constructor); inside future::value() it merely chooses between
//    two exception types after the state tag has been read;
//  * inside a constructor / get_promise() only the operations of the implementation under test yield
//    (pending(), the CAS and the fence of charge()); the rest there is the harness's own initialisation
//    function handing the promise over (promise move = claim + destructor load), future::get_promise
//    of the not yet shared state, or the synchronous completion of a coroutine inside the constructor
//    -- nothing another thread can legally interleave with, since nobody else has a handle yet.
static bool quiet(const cocls_verif::event &e) {
    if (e.op == op_t::mark) {
        tl_mark = !tl_mark;
        return !tl_mark;
    }
    bool pload = (e.op == op_t::load || e.op == op_t::conv) && strstr(e.func, "future_common::pending(") != nullptr;
    if (tl_ctor) {
        if (pload) return false;
        if (e.op == op_t::cas && strstr(e.func, "subscribe_check_ready") != nullptr) return false;
        if (e.op == op_t::fence) return false;
        return true;
    }
    return pload;
}

static void warm_thread() { (void) cocls::coro_queue::queue_impl::instance._queue.size(); }

// ---- world -------------------------------------------------------------------------------------
struct Rec {
    std::string tag = "unread";
    std::string payload = "unread";
    int resumes = 0;
};

// records what `get` hands over; returns whether it left by an exception
template <typename F>
static bool observe(Rec &r, F &&get) {
    try {
        if constexpr (std::is_void_v<decltype(get())>) {
            get();      // a call that hands over nothing when it returns normally: the record is left alone
        } else {
            Counted &c = get();
            r.tag = "val";
            r.payload = pname(c.id);
        }
        return false;
    } catch (const TestExc &e) {
        r.tag = "exc";
        r.payload = pname(e.who);
    } catch (const cocls::await_canceled_exception &) {
        r.tag = "none";
        r.payload = "none";
    } catch (const cocls::value_not_ready_exception &) {
        r.tag = "notready";
        r.payload = "notready";
    }
    return true;
}

struct CbAwaiter : cocls::awaiter {
    Rec *rec = nullptr;
    Base *base = nullptr;   // the callback keeps no handle, only the reference to the future
    CbAwaiter() { set_resume_fn(&CbAwaiter::fire, nullptr); }
    static cocls::suspend_point<void> fire(cocls::awaiter *me, void *) noexcept {
        auto self = static_cast<CbAwaiter *>(me);
        observe(*self->rec, [&]() -> Counted & { return self->base->value(); });
        self->rec->resumes++;
        return {};
    }
};

struct HSlot {
    alignas(SF) unsigned char buf[sizeof(SF)] = {};
    bool used = false;   // set before construction starts: the controller may look at _ptr of an object
                         // whose constructor is parked at an atomic operation (its _ptr member is set by then)
    SF *get() { return std::launder(reinterpret_cast<SF *>(buf)); }
};

struct Heap {
    long *news = nullptr, *dels = nullptr;
    long base = 0, final_v = 0;
    bool published = false, exited = false;
    void publish() {
        news = &alloc_stats::news;
        dels = &alloc_stats::deletes;
        base = *news - *dels;
        published = true;
    }
    void finish() { final_v = *news - *dels - base; exited = true; }
    long value() const { return !published ? 0 : exited ? final_v : *news - *dels - base; }
};

struct TS {
    std::string name;
    static constexpr int NSLOT = 4;
    HSlot hs[NSLOT];
    std::string cmd, arg;
    std::string curop = "none";
    std::string threw = "none";   // the blocking call of this round: left by an exception "yes" / "no"; "none" before it returned
    bool frame_alive = false;
    std::unique_ptr<CbAwaiter> cb;
    Heap heap;
    SF *first() {
        for (auto &s : hs) if (s.used && (s.get()->*SProbe::ptr_mp())) return s.get();
        return nullptr;
    }
    int count() {
        int n = 0;
        for (auto &s : hs) if (s.used && (s.get()->*SProbe::ptr_mp())) n++;
        return n;
    }
};

struct World {
    std::string mode, rkind, ctor;
    std::vector<std::string> hnames;
    std::map<std::string, std::unique_ptr<TS>> ts;
    std::map<std::string, int> tid;
    std::optional<cocls::promise<Counted>> p;
    std::coroutine_handle<> gate_h;
    bool r_spawned = false;
    Heap rheap;
    long rheap_done = 0;     // balance of the resolver threads of the finished rounds
    int round = 1;
    HSlot *fresh = nullptr;  // slot in which a shared_future is being constructed for an assignment
    bool rebind = false;     // the probe is to be re-bound to the state of that slot
    std::map<std::string, Rec> recs;
    std::map<std::uint64_t, std::string> node_of;
    // probe of the shared state
    bool have_probe = false;
    Base *base = nullptr;
    void *ctl = nullptr;                 // control block == start of the make_shared allocation
#if !C17_ASAN
    std::weak_ptr<void> wp;
#endif
    vsched sched;
    TS &T(const std::string &n) { return *ts.at(n); }
};

struct FrameGuard {
    TS *ts;
    explicit FrameGuard(TS *t) : ts(t) { ts->frame_alive = true; }
    ~FrameGuard() { ts->frame_alive = false; }
};

// the coroutine holds its own handle (by-value parameter, lives in the frame)
static cocls::async<void> co_waiter(Rec &r, SF sf, TS *ts) {
    FrameGuard g(ts);
    try {
        Counted &c = co_await sf;
        r.tag = "val";
        r.payload = pname(c.id);
    } catch (const TestExc &e) {
        r.tag = "exc";
        r.payload = pname(e.who);
    } catch (const cocls::await_canceled_exception &) {
        r.tag = "none";
        r.payload = "none";
    } catch (const cocls::value_not_ready_exception &) {
        r.tag = "notready";
        r.payload = "notready";
    }
    r.resumes++;
}

struct Gate {
    World &w;
    bool await_ready() const noexcept { return false; }
    void await_suspend(std::coroutine_handle<> h) noexcept { w.gate_h = h; }
    void await_resume() const noexcept {}
};
static cocls::async<Counted> coro_gate(World &w, int id) {
    co_await Gate{w};
    co_return id;
}
static cocls::async<Counted> coro_sync(int id) {
    co_return id;
}

// shared_future::join() "for compatible API - same as wait()": future::join() returns the reference; the
// shared_future one (shared_future.h:177-179) has no return statement, so its deduced type is void and the
// value has to be read through value() after it has returned.  Both shapes are accepted.
template <typename S>
static bool join_form(Rec &rec, S &sf) {
    if constexpr (std::is_void_v<decltype(sf.join())>) {
        if (observe(rec, [&] { sf.join(); })) return true;
        observe(rec, [&]() -> Counted & { return sf.value(); });
        return false;
    } else {
        return observe(rec, [&]() -> Counted & { return sf.join(); });
    }
}

// ---- thread bodies -----------------------------------------------------------------------------
static void construct(World &w, TS &me) {
    HSlot &s = me.hs[0];
    World *pw = &w;
    me.curop = "charge";
    s.used = true;
    tl_ctor = true;
    if (w.mode == "fn") {
        new (s.buf) SF([pw](cocls::promise<Counted> p) { pw->p.emplace(std::move(p)); });
    } else if (w.mode == "fnsync") {
        new (s.buf) SF([](cocls::promise<Counted> p) { p(2); });
    } else if (w.mode == "retfut") {
        new (s.buf) SF([pw]() -> Base {
            return Base([pw](cocls::promise<Counted> p) { pw->p.emplace(std::move(p)); });
        });
    } else if (w.mode == "async") {
        new (s.buf) SF(coro_gate(w, 1));
    } else if (w.mode == "asyncsync") {
        new (s.buf) SF(coro_sync(4));
    } else if (w.mode == "setval") {
        new (s.buf) SF(SF::set_value(3));
    } else if (w.mode == "setexc") {
        new (s.buf) SF(SF::set_exception(std::make_exception_ptr(TestExc(3))));
    } else if (w.mode == "factthrow") {
        // the factory throws: future::result_of stores the exception (future.h:301-304)
        new (s.buf) SF([]() -> Base { throw TestExc(5); });
    } else if (w.mode == "shl") {
        // default constructed, initialised, then `f << function returning a pending future`
        new (s.buf) SF();
        s.get()->init_if_needed();
        *s.get() << [pw]() -> Base {
            return Base([pw](cocls::promise<Counted> p) { pw->p.emplace(std::move(p)); });
        };
    } else if (w.mode == "init") {
        // default constructed, initialised explicitly; the second call must do nothing
        new (s.buf) SF();
        s.get()->init_if_needed();
        s.get()->init_if_needed();
    } else {   // late: default constructed
        new (s.buf) SF();
    }
    tl_ctor = false;
}

static void handle_body(World &w, TS &me) {
    warm_thread();
    me.heap.publish();
    if (me.name == w.ctor) construct(w, me);
    for (;;) {
        me.curop = "none";
        vsched::mark("op");
        const std::string &cmd = me.cmd;
        if (cmd == "exit") break;
        if (cmd == "copy") {
            TS &g = w.T(me.arg);
            SF *src = me.first();
            for (auto &s : g.hs) if (!s.used) {
                s.used = true;
                new (s.buf) SF(*static_cast<const SF *>(src));
                break;
            }
        } else if (cmd == "drop") {
            for (int i = TS::NSLOT - 1; i >= 0; i--) {
                HSlot &s = me.hs[i];
                if (s.used && (s.get()->*SProbe::ptr_mp())) {
                    s.get()->~SF();
                    memset(s.buf, 0, sizeof(s.buf));
                    s.used = false;
                    break;
                }
            }
        } else if (cmd == "poll") {
            me.curop = "po";
            SF &sf = *me.first();
            Rec &rec = w.recs.at(me.name + ".po");
            if (sf.ready()) {
                observe(rec, [&]() -> Counted & { return sf.value(); });
                rec.resumes++;
            } else {
                rec.tag = "notready";
                rec.payload = "notready";
            }
        } else if (cmd == "wait") {
            me.curop = "bl";
            SF &sf = *me.first();
            Rec &rec = w.recs.at(me.name + ".bl");
            const std::string form = me.arg;
            bool threw = false;     // did the blocking call itself leave by an exception
            if (form == "wait") {
                threw = observe(rec, [&]() -> Counted & { return sf.wait(); });
            } else if (form == "fwait") {
                threw = cocls::coro_queue::install_queue_and_call([&] {
                    return observe(rec, [&]() -> Counted & { return sf.force_wait(); });
                });
            } else if (form == "join") {
                threw = join_form(rec, sf);
            } else if (form == "syncval") {
                threw = observe(rec, [&] { sf.sync(); });
                observe(rec, [&]() -> Counted & { return sf.value(); });
            } else if (form == "fsync") {
                threw = cocls::coro_queue::install_queue_and_call([&] {
                    return observe(rec, [&] { sf.force_sync(); });
                });
                rec.tag = "synced";
                rec.payload = "synced";
            } else {
                rec.tag = "bad";
                rec.payload = "unknown-form";
            }
            me.threw = threw ? "yes" : "no";
            rec.resumes++;
        } else if (cmd == "co") {
            me.curop = "co";
            SF &sf = *me.first();
            Rec &rec = w.recs.at(me.name + ".co");
            auto c = co_waiter(rec, sf, &me);
            c.detach();
        } else if (cmd == "cb") {
            me.curop = "cb";
            SF &sf = *me.first();
            Base &b = sf;
            me.cb->base = &b;
            if (!sf.operator co_await().subscribe(me.cb.get())) me.cb->resume();
        } else if (cmd == "rearm_shl") {
            // f << fn : fn returns a pending future (its promise goes to the resolver of the new round) or a ready one
            me.curop = "charge";
            SF &sf = *me.first();
            World *pw = &w;
            tl_ctor = true;
            if (me.arg == "ready") {
                int id = 20 + w.round;
                sf << [id]() -> Base { return Base::set_value(id); };
            } else if (me.arg == "readyexc") {
                int id = 20 + w.round;
                sf << [id]() -> Base { return Base::set_exception(std::make_exception_ptr(TestExc(id))); };
            } else if (me.arg == "readynone") {
                sf << []() -> Base { return Base::set_not_value(); };
            } else if (me.arg == "throws") {
                // the factory throws: result_of's catch path re-creates the future and resolves it with the exception
                int id = 30 + w.round;
                sf << [id]() -> Base { throw TestExc(id); };
            } else {
                sf << [pw]() -> Base {
                    return Base([pw](cocls::promise<Counted> p) { pw->p.emplace(std::move(p)); });
                };
            }
            tl_ctor = false;
        } else if (cmd == "rearm_assign") {
            // f = shared_future(fn) : the new object is built in a spare slot (visible to the controller while its
            // constructor is parked), assigned with the implicit copy assignment, the spare handle destroyed
            me.curop = "charge";
            SF *dst = me.first();
            HSlot *spare = nullptr;
            for (auto &s : me.hs) if (!s.used) { spare = &s; break; }
            World *pw = &w;
            w.fresh = spare;
            spare->used = true;
            tl_ctor = true;
            new (spare->buf) SF([pw](cocls::promise<Counted> p) { pw->p.emplace(std::move(p)); });
            *dst = *static_cast<const SF *>(spare->get());
            spare->get()->~SF();
            memset(spare->buf, 0, sizeof(spare->buf));
            spare->used = false;
            w.fresh = nullptr;
            tl_ctor = false;
        } else if (cmd == "nullpoll") {
            SF &sf = *me.hs[0].get();
            Rec &rec = w.recs.at(me.name + ".po");
            if (sf.ready()) { rec.tag = "bad"; rec.payload = "ready-on-null"; }
            else observe(rec, [&]() -> Counted & { return sf.value(); });
        } else if (cmd == "late") {
            // get_promise(): on the default constructed object (LateInit) or through a handle of the fresh,
            // already shared state (GetPromise)
            me.curop = "charge";
            SF &sf = me.first() ? *me.first() : *me.hs[0].get();
            tl_ctor = true;
            w.p.emplace(sf.get_promise());
            tl_ctor = false;
        }
    }
    me.heap.finish();
}

static void resolver_body(World &w) {
    warm_thread();
    w.rheap.publish();
    const std::string &k = w.rkind;
    int id = w.round == 1 ? 1 : 10 + w.round;
    if (k == "val") {
        bool b = (*w.p)(id);
        (void) b;
    } else if (k == "exc") {
        bool b = (*w.p)(std::make_exception_ptr(TestExc(id)));
        (void) b;
    } else if (k == "drop") {
        bool b = (*w.p)(cocls::drop);
        (void) b;
    } else if (k == "dtor") {
        w.p.reset();
    } else if (k == "unwind") {
        // the producer takes the promise into a local (move = claim), fails before resolving it: the local is
        // destroyed by stack unwinding (std::uncaught_exceptions() == 1 inside ~promise)
        try {
            cocls::promise<Counted> local(std::move(*w.p));
            throw TestExc(id);
        } catch (const TestExc &) {
        }
    } else if (k == "final") {
        vsched::mark("final");
        w.gate_h.resume();
    }
    w.rheap.finish();
}

static void maybe_spawn_resolver(World &w) {
    if (w.r_spawned || w.rkind == "none") return;
    if (!(w.p.has_value() || w.gate_h)) return;
    w.r_spawned = true;
    World *pw = &w;
    w.tid["r"] = w.sched.spawn([pw] { resolver_body(*pw); });
}

// ---- projection --------------------------------------------------------------------------------
static std::string pend_of(World &w, const std::string &name) {
    auto it = w.tid.find(name);
    if (it == w.tid.end()) return name == "r" ? (w.rkind == "none" ? "done" : "nopromise") : "notspawned";
    int t = it->second;
    if (w.sched.done(t)) return "done";
    const auto &e = w.sched.pending(t);
    std::string f = e.func;
    auto has = [&](const char *s) { return f.find(s) != std::string::npos; };
    std::string site = std::string("?") + cocls_verif::op_name(e.op) + "@" + f;
    switch (e.op) {
        case op_t::mark: site = e.tag; break;
        case op_t::xchg:
            if (has("::claim(")) site = "claim";
            else if (has("resume_chain_set_ready")) site = "swap";
            break;
        case op_t::load: case op_t::conv:
            if (has("::~promise(")) site = "dload";
            else if (has("future_common::ready(")) site = "check";
            else if (has("future_common::pending(")) site = "pload";
            break;
        case op_t::store: case op_t::assign:
            if (has("::wakeup(")) site = "fstore";
            break;
        case op_t::notify: site = "notify"; break;
        case op_t::cas:
            if (has("subscribe_check_ready")) site = "cas";
            break;
        case op_t::fence: site = "fence"; break;
        case op_t::wait: site = "wait"; break;
        default: break;
    }
    return std::string(w.sched.pending_after(t) ? "post:" : "pre:") + site;
}

static bool is_idle(World &w, int t) {
    if (!w.sched.parked(t) || w.sched.pending_after(t)) return false;
    const auto &e = w.sched.pending(t);
    return e.op == op_t::mark && !strcmp(e.tag, "op");
}

static void acquire_probe(World &w) {
    if (w.rebind && w.fresh && w.fresh->used && (w.fresh->get()->*SProbe::ptr_mp())) {
        // assignment of a new shared_future in progress: from now on the projection describes the new state
        for (auto it = w.node_of.begin(); it != w.node_of.end();) it = it->second == "tr" ? w.node_of.erase(it) : std::next(it);
#if !C17_ASAN
        w.wp.reset();
#endif
        w.have_probe = false;
        w.rebind = false;
    }
    if (w.have_probe) return;
    for (auto &kv : w.ts) {
        SF *sf = kv.second->first();
        if (w.fresh && w.fresh->used && (w.fresh->get()->*SProbe::ptr_mp())) sf = w.fresh->get();
        if (!sf) continue;
        auto &sp = sf->*SProbe::ptr_mp();
        w.base = sp.get();
        cocls::awaiter *tr = &sp.get()->resolve_tracer;
        w.node_of[(std::uint64_t) reinterpret_cast<std::uintptr_t>(tr)] = "tr";
        // libstdc++: shared_ptr = { element pointer, control block pointer }; the control block of
        // make_shared is the start of the single allocation holding the object
        w.ctl = reinterpret_cast<void *const *>(&sp)[1];
#if !C17_ASAN
        w.wp = sp;
#endif
        w.have_probe = true;
        return;
    }
}

// "none" | "alive" | "freed"
static const char *state_of(World &w) {
    if (!w.have_probe) return "none";
#if C17_ASAN
    return __asan_address_is_poisoned(w.ctl) ? "freed" : "alive";
#else
    return w.wp.expired() ? "freed" : "alive";
#endif
}

// operator new minus operator delete calls on the scenario's threads.  Plain build: the weak_ptr probe
// keeps the memory block of a destroyed state allocated (it is released by the controller), so the
// block is discounted once the state has expired; the ASan build has no probe and counts exactly.
static long heap_balance(World &w) {
    long heap = w.rheap.value() + w.rheap_done;
    for (auto &kv : w.ts) heap += kv.second->heap.value();
#if !C17_ASAN
    if (w.have_probe && w.wp.expired()) heap -= 1;
#endif
    return heap;
}

static long use_count(World &w) {
#if C17_ASAN
    return static_cast<std::_Sp_counted_base<> *>(w.ctl)->_M_get_use_count();
#else
    return w.wp.use_count();
#endif
}

static void learn_nodes(World &w) {
    for (auto &kv : w.ts) {
        auto it = w.tid.find(kv.first);
        if (it == w.tid.end()) continue;
        int t = it->second;
        if (!w.sched.parked(t) || w.sched.pending_after(t)) continue;
        const auto &e = w.sched.pending(t);
        if (e.op != op_t::cas || !strstr(e.func, "subscribe_check_ready")) continue;
        const std::string &op = kv.second->curop;
        if (op == "bl" || op == "co" || op == "cb") w.node_of[e.arg] = kv.first + "." + op;
    }
}

static J project(World &w) {
    acquire_probe(w);
    learn_nodes(w);
    J m = J::map();
    std::string st = state_of(w);
    m.set("st", st);
    m.set("live", (long) Counted::live.load());
    m.set("vd", (long) Counted::dtors.load());
    if (st == "alive") {
        m.set("use", use_count(w));
        cocls::awaiter *top = (w.base->*FProbe::slot_mp()).verif_peek();
        if (top == &cocls::awaiter::disabled) m.set("chain", "ready");
        else {
            J ch = J::list();
            int fuel = 16;
            for (cocls::awaiter *n = top; n && fuel--; n = n->_next) {
                if (n == &cocls::awaiter::disabled) { ch.push("ready!"); break; }
                if (n == &cocls::awaiter::instance) { ch.push("instance"); break; }
                auto it = w.node_of.find((std::uint64_t) reinterpret_cast<std::uintptr_t>(n));
                if (it == w.node_of.end()) { ch.push("unknown"); break; }
                ch.push(it->second);
            }
            m.set("chain", ch);
        }
        auto s = w.base->*FProbe::state_mp();
        using S = cocls::future_common::State;
        if (s == S::not_value) { m.set("tag", "none"); m.set("payload", "none"); }
        else if (s == S::value) { m.set("tag", "val"); m.set("payload", pname((w.base->*FProbe::value_mp()).id)); }
        else if (s == S::exception) {
            m.set("tag", "exc");
            try { std::rethrow_exception(w.base->*FProbe::exc_mp()); }
            catch (const TestExc &e) { m.set("payload", pname(e.who)); }
            catch (...) { m.set("payload", "other"); }
        } else { m.set("tag", "other"); m.set("payload", "other"); }
    } else {
        m.set("use", 0L);
        m.set("chain", "-");
        m.set("tag", "-");
        m.set("payload", "-");
    }
    bool one = true;
    for (auto &kv : w.ts) for (auto &hs : kv.second->hs)
        if (hs.used && (hs.get()->*SProbe::ptr_mp()) && static_cast<Base *>((hs.get()->*SProbe::ptr_mp()).get()) != w.base) one = false;
    m.set("one", one);
    J pend = J::map(), nh = J::map(), cref = J::map(), resumes = J::map(), seen = J::map(), threw = J::map();
    long heap = heap_balance(w);
    pend.set("r", pend_of(w, "r"));
    for (auto &kv : w.ts) {
        TS &t = *kv.second;
        pend.set(kv.first, pend_of(w, kv.first));
        nh.set(kv.first, t.count());
        cref.set(kv.first, t.frame_alive ? 1 : 0);
        threw.set(kv.first, t.threw);
    }
    for (auto &kv : w.recs) {
        resumes.set(kv.first, kv.second.resumes);
        J s = J::map();
        s.set("tag", kv.second.tag);
        s.set("payload", kv.second.payload);
        seen.set(kv.first, s);
    }
    m.set("pend", pend);
    m.set("nh", nh);
    m.set("cref", cref);
    m.set("heap", heap);
    m.set("resumes", resumes);
    m.set("seen", seen);
    m.set("threw", threw);
    return m;
}

// ---- scenario ----------------------------------------------------------------------------------
static const char *command_of(const std::string &action) {
    if (action == "Copy") return "copy";
    if (action == "Drop") return "drop";
    if (action == "BeginPoll") return "poll";
    if (action == "BeginWait") return "wait";
    if (action == "BeginCo") return "co";
    if (action == "BeginCb") return "cb";
    if (action == "NullPoll") return "nullpoll";
    if (action == "LateInit" || action == "GetPromise") return "late";
    if (action == "ReArmShl") return "rearm_shl";
    if (action == "ReArmAssign") return "rearm_assign";
    return nullptr;
}

static void run(const Scenario &sc, Reporter &rep) {
    Counted::live = 0; Counted::dtors = 0; Counted::copies = 0;
    int exc_before = TestExc::live.load();
    World *pw = new World();   // leaked on deadlock (stuck threads reference it)
    World &w = *pw;
    if (sc.steps.empty() || sc.steps[0].name != "Setup") {
        rep.error(0, "scenario does not start with Setup(mode, rkind)");
        delete pw;
        return;
    }
    w.mode = sc.steps[0].sarg(0);
    w.rkind = sc.steps[0].sarg(1);
    w.ctor = sc.hdr.at("ctor").as_str();
    for (auto &h : sc.hdr.at("H").l) w.hnames.push_back(h.s);
    std::sort(w.hnames.begin(), w.hnames.end());
    for (auto &h : w.hnames) {
        auto t = std::make_unique<TS>();
        t->name = h;
        t->cb.reset(new CbAwaiter());
        for (const char *k : {"co", "bl", "cb", "po"}) w.recs[h + "." + k];
        t->cb->rec = &w.recs[h + ".cb"];
        w.ts[h] = std::move(t);
    }
    w.sched.yield_after = true;
    w.sched.log_enabled = false;
    w.sched.no_yield = &quiet;
    w.sched.install();
    // the constructing thread first: it runs its constructor up to the first scheduling point
    {
        TS *me = &w.T(w.ctor);
        w.tid[w.ctor] = w.sched.spawn([pw, me] { handle_body(*pw, *me); });
    }
    for (auto &h : w.hnames) if (h != w.ctor) {
        TS *me = &w.T(h);
        w.tid[h] = w.sched.spawn([pw, me] { handle_body(*pw, *me); });
    }
    maybe_spawn_resolver(w);
    bool bad = !rep.check(0, project(w));
    for (std::size_t k = 1; k < sc.steps.size() && !bad; k++) {
        const Step &st = sc.steps[k];
        auto it = w.tid.find(st.sarg(0));
        if (it == w.tid.end()) {
            if (st.sarg(0) == "r") rep.diverge(k, "the resolver has no promise in the implementation got=" + project(w).dump());
            else rep.error(k, "unknown thread");
            bad = true;
            break;
        }
        int t = it->second;
        if (!w.sched.enabled(t)) {
            rep.diverge(k, "thread not enabled in the implementation (" + std::string(w.sched.done(t) ? "finished" : "blocked") + ") got=" + project(w).dump());
            bad = true;
            break;
        }
        const char *cmd = command_of(st.name);
        if ((cmd != nullptr) != is_idle(w, t)) {
            rep.diverge(k, std::string("the thread is ") + (cmd ? "inside a call" : "between two calls") + " in the implementation got=" + project(w).dump());
            bad = true;
            break;
        }
        if (cmd) {
            TS &me = w.T(st.sarg(0));
            me.cmd = cmd;
            me.arg = st.sarg(1);
            if (st.name == "ReArmShl" || st.name == "ReArmAssign") {
                // a new round: its own resolver (kind = second argument), observations per round
                auto rt = w.tid.find("r");
                if (rt != w.tid.end() && !w.sched.done(rt->second)) {
                    rep.diverge(k, "re-arm while the resolver of the previous round has not finished got=" + project(w).dump());
                    bad = true;
                    break;
                }
                w.tid.erase("r");
                w.rheap_done += w.rheap.value();
                w.rheap = Heap();
                w.r_spawned = false;
                w.p.reset();
                w.gate_h = nullptr;
                w.round++;
                w.rkind = (st.sarg(1).rfind("ready", 0) == 0 || st.sarg(1) == "throws") ? "none" : st.sarg(1);
                w.rebind = st.name == "ReArmAssign";
                for (auto &kv : w.recs) kv.second = Rec();
                for (auto &kv : w.ts) kv.second->threw = "none";
            }
        }
        w.sched.step(t);
        maybe_spawn_resolver(w);
        if (!rep.check(k, project(w))) bad = true;
    }
    // finish: paths end in terminal states (everything dropped, resolver done, threads idle)
    for (auto &kv : w.ts) kv.second->cmd = "exit";
    if (w.have_probe && w.rkind != "none" && std::string(state_of(w)) == "freed" && !(w.r_spawned && w.sched.done(w.tid["r"]))) {
        // The state has been destroyed although its promise is still to be resolved (only a counterexample of
        // the as-found model of operator<< ends here, or a run that already diverged): every further step of
        // the resolver would write into freed memory.  Finish the handle threads only, never run the
        // resolver, disarm the promise (its destructor would resolve the dead future) and leak the world.
        for (int round = 0; round < 64; round++)
            for (auto &kv : w.ts) { int t = w.tid[kv.first]; if (!w.sched.done(t) && w.sched.enabled(t)) w.sched.step(t); }
        w.sched.uninstall();
        if (w.p.has_value()) {
            void *leak = malloc(sizeof(cocls::promise<Counted>));
            new (leak) cocls::promise<Counted>(std::move(*w.p));
        }
        w.sched.join_all();
        return;
    }
    bool drained = w.sched.drain();
    if (!drained && !bad) { rep.diverge(sc.steps.size() - 1, "deadlock: threads blocked at the end of the schedule got=" + project(w).dump()); bad = true; }
    if (drained && !bad) {
        J fin = project(w);
        std::string st = state_of(w);
        long heap = heap_balance(w);
        int handles = 0;
        for (auto &kv : w.ts) handles += kv.second->count();
        if (handles != 0) { rep.diverge(sc.steps.size() - 1, "handles left at the end of the schedule"); bad = true; }
        else if (st != "freed") { rep.diverge(sc.steps.size() - 1, "leak: the shared state is not freed after the last reference was dropped got=" + fin.dump()); bad = true; }
        else if (Counted::live != 0) { rep.diverge(sc.steps.size() - 1, "leak: stored value still alive at the end got=" + fin.dump()); bad = true; }
        else if (Counted::copies != 0) { rep.diverge(sc.steps.size() - 1, "the stored value was copied"); bad = true; }
        else if (heap != 0) { rep.diverge(sc.steps.size() - 1, "allocation balance not zero at the end got=" + fin.dump()); bad = true; }
    }
    w.sched.uninstall();
    if (!drained) {
        fflush(stdout);
        _exit(1);
    }
    w.sched.join_all();
    // after a divergence handles may be left
    for (auto &kv : w.ts) for (auto &s : kv.second->hs) if (s.used) { s.get()->~SF(); s.used = false; }
    delete pw;
    if (!bad && TestExc::live.load() != exc_before) rep.diverge(sc.steps.size() - 1, "leak: the stored exception object was not destroyed");
}

int main() {
    return replay_main(std::cin, run);
}
