// shared_future_replay_asan.cpp -- the same replayer as shared_future_replay.cpp under a second name: the
// quick tier of tools/checks/c17.py builds it with AddressSanitizer next to the plain build (in an ASan
// build the replayer keeps no weak_ptr to the shared state, so the library touching the freed state aborts
// the replay).  bin/replay finds the source of a replay artefact by this name.
#include "shared_future_replay.cpp"
