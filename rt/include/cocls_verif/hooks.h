// cocls_verif/hooks.h -- observation/control seam used when cocls is compiled with -DCOCLS_VERIF.
//
// Included from cocls/common.h under the guard.  Provides
//   * cocls_verif::atomic<T>  : drop-in for std::atomic<T> (same interface for the members cocls
//     uses).  Every operation is announced to an installed handler *before* it is executed
//     (handler may park the calling thread: that is the scheduling point of the controlled
//     scheduler) and reported *after* it executed, with the memory-order argument(s) exactly as
//     passed by the call site and the call site itself (std::source_location of the caller).
//   * COCLS_VERIF_NA_READ/WRITE(obj, tag) : markers for plain (non atomic) shared accesses.
//   * routing of std::atomic_thread_fence through the same handler (function-like macro, the
//     use site in awaiter.h stays untouched).
// With no handler installed every operation degenerates to the std::atomic operation.
#pragma once
#ifndef COCLS_VERIF_HOOKS_H_
#define COCLS_VERIF_HOOKS_H_

#include <atomic>
#include <cstdint>
#include <cstring>
#include <source_location>
#include <type_traits>

namespace cocls_verif {

enum class op_t : int { load, store, xchg, cas, wait, notify, fence, na_read, na_write, conv, assign, mark,
                        // operations of the interposed pthread layer (cocls_verif/pthread_shim.h)
                        lock, unlock, cond_wait, cond_signal, cond_broadcast, thread_create, thread_start, thread_join };

inline const char *op_name(op_t o) {
    switch (o) {
        case op_t::load: return "load";
        case op_t::store: return "store";
        case op_t::xchg: return "xchg";
        case op_t::cas: return "cas";
        case op_t::wait: return "wait";
        case op_t::notify: return "notify";
        case op_t::fence: return "fence";
        case op_t::na_read: return "na_read";
        case op_t::na_write: return "na_write";
        case op_t::conv: return "load";     // implicit conversion == load(seq_cst)
        case op_t::assign: return "store";  // operator= == store(seq_cst)
        case op_t::mark: return "mark";     // explicit harness-level scheduling point
        case op_t::lock: return "lock";
        case op_t::unlock: return "unlock";
        case op_t::cond_wait: return "cond_wait";
        case op_t::cond_signal: return "cond_signal";
        case op_t::cond_broadcast: return "cond_broadcast";
        case op_t::thread_create: return "thread_create";
        case op_t::thread_start: return "thread_start";
        case op_t::thread_join: return "thread_join";
    }
    return "?";
}

inline const char *mo_name(int mo) {
    switch (mo) {
        case (int)std::memory_order_relaxed: return "relaxed";
        case (int)std::memory_order_consume: return "consume";
        case (int)std::memory_order_acquire: return "acquire";
        case (int)std::memory_order_release: return "release";
        case (int)std::memory_order_acq_rel: return "acq_rel";
        case (int)std::memory_order_seq_cst: return "seq_cst";
        default: return "none";
    }
}

struct event {
    op_t op = op_t::load;
    const void *obj = nullptr;
    const char *file = "";
    const char *func = "";
    unsigned line = 0;
    int mo = -1;        // success / only order
    int mo_fail = -1;   // failure order of a CAS as the call site passed it (-1: not given)
    bool weak = false;
    std::uint64_t expected = 0;   // CAS expected / wait old value
    std::uint64_t arg = 0;        // value stored / desired
    std::uint64_t result = 0;     // value read
    bool ok = true;               // CAS success
    const char *tag = "";
};

// Predicate handed to handler::wait: "the waited-for condition holds now".
struct wait_pred {
    const void *ctx;
    bool (*fn)(const void *);
    bool operator()() const { return fn(ctx); }
};

struct handler {
    virtual ~handler() = default;
    // before the operation; may block the calling thread until it is scheduled
    virtual void pre(event &e) = 0;
    // after the operation, result fields filled in
    virtual void post(event &e) = 0;
    // atomic wait: return true if the handler performed the wait (condition holds on return),
    // false to fall through to the real futex wait
    virtual bool wait(event &e, wait_pred changed) = 0;
};

inline std::atomic<handler *> g_handler{nullptr};

// >0 while the verification runtime itself allocates (event log, memory-order table): allocation
// counters of the harnesses ignore those
inline thread_local int internal_allocs = 0;

inline handler *get_handler() noexcept { return g_handler.load(std::memory_order_acquire); }

template <typename T>
inline std::uint64_t to_u64(T v) noexcept {
    if constexpr (std::is_pointer_v<T>) {
        return (std::uint64_t) reinterpret_cast<std::uintptr_t>(v);
    } else if constexpr (std::is_integral_v<T> || std::is_enum_v<T>) {
        return (std::uint64_t) v;
    } else {
        std::uint64_t r = 0;
        std::memcpy(&r, &v, sizeof(v) < sizeof(r) ? sizeof(v) : sizeof(r));
        return r;
    }
}

template <typename T>
class atomic {
    using loc_t = std::source_location;
    mutable std::atomic<T> _v;

    static event mk(op_t op, const void *obj, const loc_t &loc) noexcept {
        event e;
        e.op = op;
        e.obj = obj;
        e.file = loc.file_name();
        e.func = loc.function_name();
        e.line = loc.line();
        return e;
    }

public:
    using value_type = T;

    constexpr atomic() noexcept = default;
    constexpr atomic(T v) noexcept : _v(v) {}
    atomic(const atomic &) = delete;
    atomic &operator=(const atomic &) = delete;

    // raw access for projections (controller side, all managed threads parked)
    T verif_peek() const noexcept { return _v.load(std::memory_order_relaxed); }
    const void *verif_addr() const noexcept { return &_v; }

    T load(std::memory_order mo = std::memory_order_seq_cst, loc_t loc = loc_t::current()) const noexcept {
        handler *h = get_handler();
        if (!h) return _v.load(mo);
        event e = mk(op_t::load, this, loc);
        e.mo = (int) mo;
        h->pre(e);
        T r = _v.load(mo);
        e.result = to_u64(r);
        h->post(e);
        return r;
    }

    operator T() const noexcept {
        handler *h = get_handler();
        if (!h) return _v.load();
        event e = mk(op_t::conv, this, loc_t::current());
        e.mo = (int) std::memory_order_seq_cst;
        h->pre(e);
        T r = _v.load();
        e.result = to_u64(r);
        h->post(e);
        return r;
    }

    void store(T v, std::memory_order mo = std::memory_order_seq_cst, loc_t loc = loc_t::current()) noexcept {
        handler *h = get_handler();
        if (!h) { _v.store(v, mo); return; }
        event e = mk(op_t::store, this, loc);
        e.mo = (int) mo;
        e.arg = to_u64(v);
        h->pre(e);
        _v.store(v, mo);
        h->post(e);
    }

    T operator=(T v) noexcept {
        handler *h = get_handler();
        if (!h) { _v.store(v); return v; }
        event e = mk(op_t::assign, this, loc_t::current());
        e.mo = (int) std::memory_order_seq_cst;
        e.arg = to_u64(v);
        h->pre(e);
        _v.store(v);
        h->post(e);
        return v;
    }

    T exchange(T v, std::memory_order mo = std::memory_order_seq_cst, loc_t loc = loc_t::current()) noexcept {
        handler *h = get_handler();
        if (!h) return _v.exchange(v, mo);
        event e = mk(op_t::xchg, this, loc);
        e.mo = (int) mo;
        e.arg = to_u64(v);
        h->pre(e);
        T r = _v.exchange(v, mo);
        e.result = to_u64(r);
        h->post(e);
        return r;
    }

    bool cas_impl(bool weak, T &expected, T desired, std::memory_order mo, int mo_fail_given,
                  std::memory_order mo_fail, const loc_t &loc) noexcept {
        handler *h = get_handler();
        if (!h) {
            return weak ? _v.compare_exchange_weak(expected, desired, mo, mo_fail)
                        : _v.compare_exchange_strong(expected, desired, mo, mo_fail);
        }
        event e = mk(op_t::cas, this, loc);
        e.mo = (int) mo;
        e.mo_fail = mo_fail_given;
        e.weak = weak;
        e.expected = to_u64(expected);
        e.arg = to_u64(desired);
        h->pre(e);
        // under a handler a weak CAS is executed as a strong one: spurious failures are not
        // modelled (x86-64 has none); recorded as an assumption in the evidence.
        bool ok = _v.compare_exchange_strong(expected, desired, mo, mo_fail);
        e.ok = ok;
        e.result = ok ? e.expected : to_u64(expected);
        h->post(e);
        return ok;
    }

    static constexpr std::memory_order fail_order(std::memory_order mo) noexcept {
        return mo == std::memory_order_acq_rel ? std::memory_order_acquire
             : mo == std::memory_order_release ? std::memory_order_relaxed : mo;
    }

    bool compare_exchange_weak(T &expected, T desired, std::memory_order mo = std::memory_order_seq_cst,
                               loc_t loc = loc_t::current()) noexcept {
        return cas_impl(true, expected, desired, mo, -1, fail_order(mo), loc);
    }
    bool compare_exchange_weak(T &expected, T desired, std::memory_order mo, std::memory_order mof,
                               loc_t loc = loc_t::current()) noexcept {
        return cas_impl(true, expected, desired, mo, (int) mof, mof, loc);
    }
    bool compare_exchange_strong(T &expected, T desired, std::memory_order mo = std::memory_order_seq_cst,
                                 loc_t loc = loc_t::current()) noexcept {
        return cas_impl(false, expected, desired, mo, -1, fail_order(mo), loc);
    }
    bool compare_exchange_strong(T &expected, T desired, std::memory_order mo, std::memory_order mof,
                                 loc_t loc = loc_t::current()) noexcept {
        return cas_impl(false, expected, desired, mo, (int) mof, mof, loc);
    }

    void wait(T old, std::memory_order mo = std::memory_order_seq_cst, loc_t loc = loc_t::current()) const noexcept {
        handler *h = get_handler();
        if (h) {
            event e = mk(op_t::wait, this, loc);
            e.mo = (int) mo;
            e.expected = to_u64(old);
            struct ctx_t { const std::atomic<T> *a; T old; std::memory_order mo; } ctx{&_v, old, mo};
            wait_pred p{&ctx, [](const void *c) {
                auto x = static_cast<const ctx_t *>(c);
                return x->a->load(x->mo) != x->old;
            }};
            if (h->wait(e, p)) return;
        }
        _v.wait(old, mo);
    }

    void notify_one(loc_t loc = loc_t::current()) noexcept {
        handler *h = get_handler();
        // the address is captured before the pre-hook: by the time the notifying thread is
        // scheduled again the object may be gone (sync_awaiter lives on the waiter's stack); the
        // real notify only uses the address.
        auto *a = &_v;
        if (h) { event e = mk(op_t::notify, this, loc); e.arg = 1; h->pre(e); a->notify_one(); h->post(e); }
        else a->notify_one();
    }
    void notify_all(loc_t loc = loc_t::current()) noexcept {
        handler *h = get_handler();
        auto *a = &_v;
        if (h) { event e = mk(op_t::notify, this, loc); e.arg = 2; h->pre(e); a->notify_all(); h->post(e); }
        else a->notify_all();
    }
};

inline void fence_hook(std::memory_order mo, const char *file, unsigned line, const char *func) noexcept {
    handler *h = get_handler();
    if (!h) return;
    event e;
    e.op = op_t::fence;
    e.file = file; e.func = func; e.line = line;
    e.mo = (int) mo;
    h->pre(e);
    h->post(e);
}

inline void na_hook(op_t op, const void *obj, const char *tag,
                    std::source_location loc = std::source_location::current()) noexcept {
    handler *h = get_handler();
    if (!h) return;
    event e;
    e.op = op; e.obj = obj; e.tag = tag;
    e.file = loc.file_name(); e.func = loc.function_name(); e.line = loc.line();
    h->pre(e);
    h->post(e);
}

}  // namespace cocls_verif

// Route std::atomic_thread_fence(mo) through the handler without touching the use site: a
// function-like macro is not re-expanded inside its own replacement, so the real function is
// still what gets called.  <atomic> is already included above, so its declaration is unaffected.
#define atomic_thread_fence(mo) \
    atomic_thread_fence((::cocls_verif::fence_hook((mo), __FILE__, __LINE__, __builtin_FUNCTION()), (mo)))

#define COCLS_VERIF_NA_READ(obj, tag) ::cocls_verif::na_hook(::cocls_verif::op_t::na_read, (obj), (tag))
#define COCLS_VERIF_NA_WRITE(obj, tag) ::cocls_verif::na_hook(::cocls_verif::op_t::na_write, (obj), (tag))

#endif
