// cocls_verif/vsched.h -- controlled scheduler: real std::threads running real cocls code, exactly
// one of which holds the run token.  A managed thread gives the token back to the controller
// *before* every visible operation (instrumented atomic op, fence, plain-access marker, explicit
// mark).  One controller step of thread t = "perform t's pending visible operation, then run
// local code until t announces its next visible operation, blocks in an atomic wait, or ends".
// All projections of library state are taken by the controller while every managed thread is
// parked, hence race free.  The event log is a total order.
#pragma once
#include <cocls_verif/hooks.h>

#include <atomic>
#include <cstdio>
#include <cstdlib>
#include <functional>
#include <memory>
#include <set>
#include <string>
#include <thread>
#include <vector>

namespace cocls_verif {

struct logged_event : event {
    int thread = -1;
};

// Table of (operation, enclosing function of the call site, memory orders as passed by the call site)
// observed over the whole process; written to $VSCHED_MOTABLE at exit.  It is the input from which
// the memory-order constants of the weak-memory models are generated (DESIGN 4.5).
struct motable {
    std::set<std::string> rows;
    static motable &get() { static motable m; return m; }
    void record(const event &e) {
        if (e.op == op_t::mark || e.op == op_t::na_read || e.op == op_t::na_write) return;
        std::string r = std::string(op_name(e.op)) + "\t" + e.func + "\t" + mo_name(e.mo) + "\t" + mo_name(e.mo_fail);
        rows.insert(std::move(r));
    }
    ~motable() {
        const char *path = getenv("VSCHED_MOTABLE");
        if (!path) return;
        FILE *f = fopen(path, "w");
        if (!f) return;
        for (auto &r : rows) fprintf(f, "%s\n", r.c_str());
        fclose(f);
    }
};

class vsched : public handler {
public:
    enum class st_t { starting, parked, running, done };

    struct thread_ctl {
        int id = 0;
        std::thread th;
        std::atomic<int> go{0};
        st_t st = st_t::starting;
        event pending;
        bool is_wait = false;
        bool after = false;      // parked *after* `pending` was executed (post-operation yield)
        wait_pred pred{nullptr, nullptr};
        std::function<void()> body;
        unsigned steps = 0;
    };

    vsched() = default;
    ~vsched() override { join_all(); }

    static vsched *&current() { static vsched *c = nullptr; return c; }
    static thread_ctl *&self() { static thread_local thread_ctl *s = nullptr; return s; }

    void install() { _log.reserve(8192); current() = this; g_handler.store(this, std::memory_order_release); }
    void uninstall() { g_handler.store(nullptr, std::memory_order_release); current() = nullptr; }

    // ---- controller side -------------------------------------------------------------------
    // create a managed thread and run it up to its first visible operation
    int spawn(std::function<void()> body) {
        auto t = std::make_unique<thread_ctl>();
        t->id = (int) _threads.size();
        t->body = std::move(body);
        thread_ctl *p = t.get();
        _threads.push_back(std::move(t));
        p->st = st_t::running;
        p->th = std::thread([this, p] {
            self() = p;
            p->body();
            p->body = nullptr;
            p->st = st_t::done;
            self() = nullptr;
            signal_controller();
        });
        wait_for_thread();
        return p->id;
    }

    std::size_t nthreads() const { return _threads.size(); }
    bool done(int t) const { return _threads[t]->st == st_t::done; }
    bool parked(int t) const { return _threads[t]->st == st_t::parked; }
    const event &pending(int t) const { return _threads[t]->pending; }
    bool pending_after(int t) const { return _threads[t]->after; }
    bool enabled(int t) const {
        auto &x = *_threads[t];
        if (x.st != st_t::parked) return false;
        return !x.is_wait || x.pred();
    }
    bool all_done() const {
        for (auto &t : _threads) if (t->st != st_t::done) return false;
        return true;
    }
    bool any_enabled() const {
        for (std::size_t i = 0; i < _threads.size(); i++) if (enabled((int) i)) return true;
        return false;
    }

    // perform one step of thread t (must be enabled)
    void step(int t) {
        auto &x = *_threads[t];
        x.st = st_t::running;
        x.steps++;
        x.go.store(1, std::memory_order_release);
        x.go.notify_one();
        wait_for_thread();
    }

    // run everything to completion round-robin; returns false on deadlock
    bool drain(unsigned max_steps = 100000) {
        unsigned n = 0;
        while (!all_done()) {
            bool progressed = false;
            for (std::size_t i = 0; i < _threads.size(); i++) {
                if (enabled((int) i)) { step((int) i); progressed = true; if (++n > max_steps) return false; }
            }
            if (!progressed) return false;
        }
        return true;
    }

    void join_all() {
        for (auto &t : _threads) if (t->th.joinable()) {
            if (t->st != st_t::done) {
                // cannot be joined: a stuck thread; detach (reported by the caller as deadlock)
                t->th.detach();
                (void) t.release();   // leak the control block: the thread may still touch it
            } else t->th.join();
        }
        _threads.clear();
    }

    std::vector<logged_event> &log() { return _log; }
    void clear_log() { _log.clear(); }
    bool log_enabled = true;
    bool record_motable = getenv("VSCHED_MOTABLE") != nullptr;
    bool yield_after = false;   // also park after every operation (see post())
    // operations for which the harness states that their outcome does not depend on the schedule
    // (documented per replayer); they are executed without giving up the run token
    bool (*no_yield)(const event &) = nullptr;

    // ---- handler interface (called on managed and unmanaged threads) -----------------------
    void pre(event &e) override {
        thread_ctl *s = self();
        if (!s) return;
        if (no_yield && no_yield(e)) return;   // logged, but not a scheduling point
        s->pending = e;
        s->is_wait = false;
        s->after = false;
        park(s);
    }
    void post(event &e) override {
        thread_ctl *s = self();
        if (!s) return;
        internal_allocs++;
        if (record_motable) motable::get().record(e);
        if (log_enabled) {
            logged_event le;
            static_cast<event &>(le) = e;
            le.thread = s->id;
            _log.push_back(le);
        }
        internal_allocs--;
        if (yield_after && !(no_yield && no_yield(e))) {
            // finest grain: the thread-local code following the operation is a step of its own
            s->pending = e;
            s->is_wait = false;
            s->after = true;
            park(s);
        }
    }
    bool wait(event &e, wait_pred changed) override {
        thread_ctl *s = self();
        if (!s) return false;
        for (;;) {
            s->pending = e;
            s->is_wait = true;
            s->after = false;
            s->pred = changed;
            park(s);
            if (changed()) break;
        }
        s->is_wait = false;
        post(e);
        return true;
    }

    // explicit scheduling point usable from harness code
    static void mark(const char *tag, std::uint64_t arg = 0,
                     std::source_location loc = std::source_location::current()) {
        handler *h = get_handler();
        if (!h) return;
        event e;
        e.op = op_t::mark; e.tag = tag; e.arg = arg;
        e.file = loc.file_name(); e.func = loc.function_name(); e.line = loc.line();
        h->pre(e);
        h->post(e);
    }

private:
    void park(thread_ctl *s) {
        s->st = st_t::parked;
        signal_controller();
        s->go.wait(0, std::memory_order_acquire);
        s->go.store(0, std::memory_order_relaxed);
    }
    void signal_controller() {
        _ctl.store(1, std::memory_order_release);
        _ctl.notify_one();
    }
    void wait_for_thread() {
        _ctl.wait(0, std::memory_order_acquire);
        _ctl.store(0, std::memory_order_relaxed);
    }

    std::vector<std::unique_ptr<thread_ctl>> _threads;
    std::atomic<int> _ctl{0};
    std::vector<logged_event> _log;
};

}  // namespace cocls_verif
