// cocls_verif/vsched.h -- controlled scheduler: real std::threads running real cocls code, exactly
// one of which holds the run token.  A managed thread gives the token back to the controller
// *before* every visible operation (instrumented atomic op, fence, plain-access marker, explicit
// mark).  One controller step of thread t = "perform t's pending visible operation, then run
// local code until t announces its next visible operation, blocks in an atomic wait, or ends".
// All projections of library state are taken by the controller while every managed thread is
// parked, hence race free.  The event log is a total order.
#pragma once
#include <cocls_verif/hooks.h>

#include <atomic>
#include <cstdio>
#include <cstdlib>
#include <deque>
#include <functional>
#include <map>
#include <pthread.h>
#include <memory>
#include <set>
#include <string>
#include <thread>
#include <vector>

namespace cocls_verif {

struct logged_event : event {
    int thread = -1;
};

// Table of (operation, enclosing function of the call site, memory orders as passed by the call site)
// observed over the whole process; written to $VSCHED_MOTABLE at exit.  It is the input from which
// the memory-order constants of the weak-memory models are generated (DESIGN 4.5).
struct motable {
    std::set<std::string> rows;
    // harness-registered labels of atomic objects (address ranges): sites are then identified by the object
    // they operate on rather than by the name of the enclosing function
    struct range { std::uintptr_t lo, hi; std::string name; };
    std::vector<range> labels;
    static motable &get() { static motable m; return m; }
    void label(const void *addr, std::size_t size, const std::string &name) {
        internal_allocs++;
        auto lo = reinterpret_cast<std::uintptr_t>(addr);
        for (auto &r : labels) if (r.lo == lo) { r.hi = lo + size; r.name = name; internal_allocs--; return; }
        labels.push_back(range{lo, lo + size, name});
        internal_allocs--;
    }
    void record(const event &e) {
        if (e.op == op_t::mark || e.op == op_t::na_read || e.op == op_t::na_write) return;
        std::string lbl = "-";
        auto a = reinterpret_cast<std::uintptr_t>(e.obj);
        for (auto &r : labels) if (a >= r.lo && a < r.hi) lbl = r.name;
        std::string r = std::string(op_name(e.op)) + "\t" + lbl + "\t" + e.func + "\t" + mo_name(e.mo) + "\t" + mo_name(e.mo_fail);
        rows.insert(std::move(r));
    }
    ~motable() {
        const char *path = getenv("VSCHED_MOTABLE");
        if (!path) return;
        FILE *f = fopen(path, "w");
        if (!f) return;
        for (auto &r : rows) fprintf(f, "%s\n", r.c_str());
        fclose(f);
    }
};

class vsched : public handler {
public:
    enum class st_t { starting, parked, running, done };

    struct thread_ctl {
        int id = 0;
        std::thread th;
        std::atomic<int> go{0};
        st_t st = st_t::starting;
        event pending;
        bool is_wait = false;
        bool after = false;      // parked *after* `pending` was executed (post-operation yield)
        wait_pred pred{nullptr, nullptr};
        std::function<void()> body;
        unsigned steps = 0;
        // --- threads adopted from library code through the interposed pthread_create ---
        bool adopted = false;
        pthread_t pth{};
        std::atomic<int> started{0};
        void *(*start_routine)(void *) = nullptr;
        void *start_arg = nullptr;
        // --- interposed condition variables ---
        bool notified = false;
        long long deadline_ns = -1;     // absolute virtual time of a timed wait (-1: none)
    };

    vsched() = default;
    ~vsched() override { join_all(); }

    static vsched *&current() { static vsched *c = nullptr; return c; }
    static thread_ctl *&self() { static thread_local thread_ctl *s = nullptr; return s; }

    void install() { _log.reserve(8192); current() = this; g_handler.store(this, std::memory_order_release); }
    void uninstall() { g_handler.store(nullptr, std::memory_order_release); current() = nullptr; motable::get().labels.clear(); }

    // ---- controller side -------------------------------------------------------------------
    // create a managed thread and run it up to its first visible operation
    int spawn(std::function<void()> body) {
        auto t = std::make_unique<thread_ctl>();
        t->id = (int) _threads.size();
        t->body = std::move(body);
        thread_ctl *p = t.get();
        _threads.push_back(std::move(t));
        p->st = st_t::running;
        bool saved_adopt = adopt_threads;
        adopt_threads = false;      // the harness's own scenario threads are created here, not adopted
        p->th = std::thread([this, p] {
            self() = p;
            p->body();
            p->body = nullptr;
            p->st = st_t::done;
            self() = nullptr;
            signal_controller();
        });
        adopt_threads = saved_adopt;
        wait_for_thread();
        return p->id;
    }

    std::size_t nthreads() const { return _threads.size(); }
    bool done(int t) const { return _threads[t]->st == st_t::done; }
    bool parked(int t) const { return _threads[t]->st == st_t::parked; }
    const event &pending(int t) const { return _threads[t]->pending; }
    bool pending_after(int t) const { return _threads[t]->after; }
    bool enabled(int t) const {
        auto &x = *_threads[t];
        if (x.st != st_t::parked) return false;
        return !x.is_wait || x.pred();
    }
    bool all_done() const {
        for (auto &t : _threads) if (t->st != st_t::done) return false;
        return true;
    }
    bool any_enabled() const {
        for (std::size_t i = 0; i < _threads.size(); i++) if (enabled((int) i)) return true;
        return false;
    }

    // perform one step of thread t (must be enabled)
    void step(int t) {
        auto &x = *_threads[t];
        x.st = st_t::running;
        x.steps++;
        x.go.store(1, std::memory_order_release);
        x.go.notify_one();
        wait_for_thread();
    }

    // run everything to completion round-robin; returns false on deadlock
    bool drain(unsigned max_steps = 100000) {
        unsigned n = 0;
        while (!all_done()) {
            bool progressed = false;
            for (std::size_t i = 0; i < _threads.size(); i++) {
                if (enabled((int) i)) { step((int) i); progressed = true; if (++n > max_steps) return false; }
            }
            if (!progressed) return false;
        }
        return true;
    }

    void join_all() {
        for (auto &t : _threads) if (t && t->th.joinable()) {
            if (t->st != st_t::done) {
                // cannot be joined: a stuck thread; detach (reported by the caller as deadlock)
                t->th.detach();
                (void) t.release();   // leak the control block: the thread may still touch it
            } else t->th.join();
        }
        // adopted threads are joined/detached by the library code that created them; their control
        // blocks are kept until every one of them has finished
        for (auto &t : _threads) if (t && t->adopted && t->st != st_t::done) { (void) t.release(); }
        _threads.clear();
        mutex_owner.clear();
        cond_waiters.clear();
    }


    // =========================================================================================
    // virtual pthread layer (used by cocls_verif/pthread_shim.h).  Managed threads never touch the
    // real mutex / condition variable: ownership and wait sets are kept here, so taking a lock,
    // waiting and being notified are scheduling points with exact enabledness.
    // =========================================================================================
    bool adopt_threads = false;  // threads created through the interposed pthread_create become managed threads
    bool lock_grain = false;     // scheduling points: lock (before), unlock (after), cond wait, thread ops, marks
    bool virtual_clock = false;
    bool yield_on_clock = false;   // clock_gettime(CLOCK_REALTIME) by a managed thread is a scheduling point
    long long vnow_ns = 1000000000LL * 1000000;   // virtual CLOCK_REALTIME

    std::map<const void *, int> mutex_owner;                  // virtual mutex -> owning managed thread
    std::map<const void *, std::deque<int>> cond_waiters;     // virtual condvar -> waiting threads (FIFO)

    int owner_of(const void *m) const { auto it = mutex_owner.find(m); return it == mutex_owner.end() ? -1 : it->second; }
    std::size_t waiters_on(const void *c) const { auto it = cond_waiters.find(c); return it == cond_waiters.end() ? 0 : it->second.size(); }
    int holds_any(int t) const { int n = 0; for (auto &kv : mutex_owner) if (kv.second == t) n++; return n; }

    struct lock_ctx { vsched *s; const void *m; };
    static bool lock_free_pred(const void *c) { auto x = static_cast<const lock_ctx *>(c); return x->s->owner_of(x->m) < 0; }

    void v_lock(thread_ctl *me, const void *m, std::source_location loc = std::source_location::current()) {
        event e; e.op = op_t::lock; e.obj = m; e.file = loc.file_name(); e.func = "pthread_mutex_lock"; e.line = loc.line();
        lock_ctx lc{this, m};
        for (;;) {
            me->pending = e; me->is_wait = true; me->after = false; me->pred = wait_pred{&lc, &lock_free_pred};
            park(me);
            if (owner_of(m) < 0) break;
        }
        me->is_wait = false;
        mutex_owner[m] = me->id;
        log_only(e, me);
    }
    bool v_trylock(thread_ctl *me, const void *m) {
        if (owner_of(m) >= 0) return false;
        mutex_owner[m] = me->id;
        return true;
    }
    void v_unlock(thread_ctl *me, const void *m) {
        event e; e.op = op_t::unlock; e.obj = m; e.func = "pthread_mutex_unlock";
        mutex_owner.erase(m);
        log_only(e, me);
        // scheduling point *after* the unlock: the code that follows the critical section is its own step
        me->pending = e; me->is_wait = false; me->after = true;
        park(me);
    }

    struct cond_ctx { vsched *s; thread_ctl *me; };
    static bool cond_pred(const void *c) {
        auto x = static_cast<const cond_ctx *>(c);
        return x->me->notified || (x->me->deadline_ns >= 0 && x->s->vnow_ns >= x->me->deadline_ns);
    }
    // returns true when woken by a notification, false on (virtual) timeout
    bool v_cond_wait(thread_ctl *me, const void *c, const void *m, long long deadline_ns) {
        event e; e.op = op_t::cond_wait; e.obj = c; e.func = "pthread_cond_wait"; e.arg = (std::uint64_t) deadline_ns;
        mutex_owner.erase(m);
        internal_allocs++;
        cond_waiters[c].push_back(me->id);
        internal_allocs--;
        me->notified = false;
        me->deadline_ns = deadline_ns;
        cond_ctx cc{this, me};
        for (;;) {
            me->pending = e; me->is_wait = true; me->after = false; me->pred = wait_pred{&cc, &cond_pred};
            park(me);
            if (cond_pred(&cc)) break;
        }
        bool by_notify = me->notified;
        if (!by_notify) {   // timed out: leave the wait set
            auto &q = cond_waiters[c];
            for (auto it = q.begin(); it != q.end(); ++it) if (*it == me->id) { q.erase(it); break; }
        }
        me->notified = false;
        me->deadline_ns = -1;
        me->is_wait = false;
        log_only(e, me);
        // re-acquire the mutex (a scheduling point of its own: the mutex may be taken)
        lock_ctx lc{this, m};
        event le; le.op = op_t::lock; le.obj = m; le.func = "pthread_cond_wait:relock";
        while (owner_of(m) >= 0) {
            me->pending = le; me->is_wait = true; me->after = false; me->pred = wait_pred{&lc, &lock_free_pred};
            park(me);
        }
        me->is_wait = false;
        mutex_owner[m] = me->id;
        return by_notify;
    }
    void v_cond_notify(thread_ctl *me, const void *c, bool all) {
        event e; e.op = all ? op_t::cond_broadcast : op_t::cond_signal; e.obj = c; e.func = "pthread_cond_notify";
        auto it = cond_waiters.find(c);
        if (it != cond_waiters.end()) {
            while (!it->second.empty()) {
                int w = it->second.front();
                it->second.pop_front();
                _threads[w]->notified = true;
                if (!all) break;
            }
        }
        if (me) log_only(e, me);
    }

    // ---- thread creation / join ----
    thread_ctl *adopt_begin(void *(*fn)(void *), void *arg) {
        internal_allocs++;
        auto t = std::make_unique<thread_ctl>();
        t->id = (int) _threads.size();
        t->adopted = true;
        t->start_routine = fn;
        t->start_arg = arg;
        t->st = st_t::starting;
        thread_ctl *p = t.get();
        _threads.push_back(std::move(t));
        internal_allocs--;
        return p;
    }
    // runs on the new thread (called from the shim's trampoline)
    void *adopt_run(thread_ctl *p) {
        self() = p;
        event e; e.op = op_t::thread_start; e.func = "thread_start";
        p->pending = e; p->is_wait = false; p->after = false;
        p->st = st_t::parked;
        // initial park: wake the *creator* (not the controller), then wait for the first grant
        p->started.store(1, std::memory_order_release);
        p->started.notify_all();
        p->go.wait(0, std::memory_order_acquire);
        p->go.store(0, std::memory_order_relaxed);
        void *r = p->start_routine(p->start_arg);
        p->st = st_t::done;
        self() = nullptr;
        signal_controller();
        return r;
    }
    void adopt_wait_started(thread_ctl *p) { p->started.wait(0, std::memory_order_acquire); }
    thread_ctl *find_pthread(pthread_t th) {
        for (auto &t : _threads) if (t && t->adopted && pthread_equal(t->pth, th)) return t.get();
        return nullptr;
    }
    static bool done_pred(const void *c) { return static_cast<const thread_ctl *>(c)->st == st_t::done; }
    void v_join_wait(thread_ctl *me, thread_ctl *target) {
        event e; e.op = op_t::thread_join; e.func = "pthread_join"; e.arg = (std::uint64_t) target->id;
        for (;;) {
            me->pending = e; me->is_wait = true; me->after = false; me->pred = wait_pred{target, &done_pred};
            park(me);
            if (target->st == st_t::done) break;
        }
        me->is_wait = false;
        log_only(e, me);
    }
    int id_of(const thread_ctl *t) const { return t->id; }
    bool is_adopted(int t) const { return _threads[t]->adopted; }

    // thread t is blocked in a timed condition wait that has not been notified (its deadline, else -1)
    long long timed_wait_deadline(int t) const {
        auto &x = *_threads[t];
        return (x.st == st_t::parked && x.is_wait && x.pending.op == op_t::cond_wait && !x.notified) ? x.deadline_ns : -1;
    }
    // earliest deadline among threads blocked in a timed wait (-1: none)
    long long earliest_deadline() const {
        long long best = -1;
        for (auto &t : _threads) if (t->st == st_t::parked && t->is_wait && t->deadline_ns >= 0 && !t->notified)
            if (best < 0 || t->deadline_ns < best) best = t->deadline_ns;
        return best;
    }

    void log_only(const event &e, thread_ctl *s) {
        if (!log_enabled) return;
        internal_allocs++;
        logged_event le;
        static_cast<event &>(le) = e;
        le.thread = s->id;
        _log.push_back(le);
        internal_allocs--;
    }

    std::vector<logged_event> &log() { return _log; }
    void clear_log() { _log.clear(); }
    bool log_enabled = true;
    bool record_motable = getenv("VSCHED_MOTABLE") != nullptr;
    bool yield_after = false;   // also park after every operation (see post())
    // operations for which the harness states that their outcome does not depend on the schedule
    // (documented per replayer); they are executed without giving up the run token
    bool (*no_yield)(const event &) = nullptr;

    // ---- handler interface (called on managed and unmanaged threads) -----------------------
    void pre(event &e) override {
        thread_ctl *s = self();
        if (!s) return;
        if (no_yield && no_yield(e)) return;   // logged, but not a scheduling point
        if (lock_grain && e.op != op_t::mark) return;   // lock grain: atomics are not scheduling points
        s->pending = e;
        s->is_wait = false;
        s->after = false;
        park(s);
    }
    void post(event &e) override {
        thread_ctl *s = self();
        if (!s) return;
        internal_allocs++;
        if (record_motable) motable::get().record(e);
        if (log_enabled) {
            logged_event le;
            static_cast<event &>(le) = e;
            le.thread = s->id;
            _log.push_back(le);
        }
        internal_allocs--;
        if (yield_after && !(no_yield && no_yield(e)) && !(lock_grain && e.op != op_t::mark)) {
            // finest grain: the thread-local code following the operation is a step of its own
            s->pending = e;
            s->is_wait = false;
            s->after = true;
            park(s);
        }
    }
    bool wait(event &e, wait_pred changed) override {
        thread_ctl *s = self();
        if (!s) return false;
        for (;;) {
            s->pending = e;
            s->is_wait = true;
            s->after = false;
            s->pred = changed;
            park(s);
            if (changed()) break;
        }
        s->is_wait = false;
        post(e);
        return true;
    }

    // explicit scheduling point usable from harness code
    static void mark(const char *tag, std::uint64_t arg = 0,
                     std::source_location loc = std::source_location::current()) {
        handler *h = get_handler();
        if (!h) return;
        event e;
        e.op = op_t::mark; e.tag = tag; e.arg = arg;
        e.file = loc.file_name(); e.func = loc.function_name(); e.line = loc.line();
        h->pre(e);
        h->post(e);
    }

private:
    void park(thread_ctl *s) {
        s->st = st_t::parked;
        signal_controller();
        s->go.wait(0, std::memory_order_acquire);
        s->go.store(0, std::memory_order_relaxed);
    }
    void signal_controller() {
        _ctl.store(1, std::memory_order_release);
        _ctl.notify_one();
    }
    void wait_for_thread() {
        _ctl.wait(0, std::memory_order_acquire);
        _ctl.store(0, std::memory_order_relaxed);
    }

    std::vector<std::unique_ptr<thread_ctl>> _threads;
    std::atomic<int> _ctl{0};
    std::vector<logged_event> _log;
};

}  // namespace cocls_verif
