// cocls_verif/pthread_shim.h -- include in exactly ONE translation unit of a harness executable.
// Defines pthread_mutex_*, pthread_cond_*, pthread_create/join and clock_gettime in the executable
// itself (symbol interposition: std::mutex / std::condition_variable / std::thread / system_clock of
// libstdc++ bottom out in these).  Calls made by threads managed by the controlled scheduler are
// routed to its virtual pthread layer (vsched.h); all other calls fall through to libc via
// dlsym(RTLD_NEXT).  No source change in the library under test is needed for lock-based components.
#pragma once
#include <cocls_verif/vsched.h>

#include <dlfcn.h>
#include <errno.h>
#include <pthread.h>
#include <time.h>

namespace cocls_verif::shim {

template <typename Fn>
inline Fn real(const char *name) {
    void *p = dlsym(RTLD_NEXT, name);
    if (!p) { fprintf(stderr, "pthread_shim: cannot resolve %s\n", name); abort(); }
    return reinterpret_cast<Fn>(p);
}

inline long long to_ns(const struct timespec *ts) {
    if (ts->tv_sec > 4000000000LL) return -1;   // time_point::max() and friends: no deadline
    return (long long) ts->tv_sec * 1000000000LL + ts->tv_nsec;
}

struct start_pack { vsched *s; vsched::thread_ctl *tc; };

inline void *trampoline(void *a) {
    start_pack *p = static_cast<start_pack *>(a);
    vsched *s = p->s;
    vsched::thread_ctl *tc = p->tc;
    internal_allocs++;
    delete p;
    internal_allocs--;
    return s->adopt_run(tc);
}

}  // namespace cocls_verif::shim

extern "C" {

int pthread_mutex_lock(pthread_mutex_t *m) {
    using namespace cocls_verif;
    static int (*fn)(pthread_mutex_t *) = nullptr;   /* no guarded static: __cxa_guard may itself take a pthread mutex */
    if (!fn) fn = shim::real<decltype(fn)>("pthread_mutex_lock");
    vsched *s = vsched::current();
    auto *me = vsched::self();
    if (!s || !me) return fn(m);
    s->v_lock(me, m);
    return 0;
}

int pthread_mutex_trylock(pthread_mutex_t *m) {
    using namespace cocls_verif;
    static int (*fn)(pthread_mutex_t *) = nullptr;   /* no guarded static: __cxa_guard may itself take a pthread mutex */
    if (!fn) fn = shim::real<decltype(fn)>("pthread_mutex_trylock");
    vsched *s = vsched::current();
    auto *me = vsched::self();
    if (!s || !me) return fn(m);
    return s->v_trylock(me, m) ? 0 : EBUSY;
}

int pthread_mutex_unlock(pthread_mutex_t *m) {
    using namespace cocls_verif;
    static int (*fn)(pthread_mutex_t *) = nullptr;   /* no guarded static: __cxa_guard may itself take a pthread mutex */
    if (!fn) fn = shim::real<decltype(fn)>("pthread_mutex_unlock");
    vsched *s = vsched::current();
    auto *me = vsched::self();
    if (!s || !me) return fn(m);
    s->v_unlock(me, m);
    return 0;
}

int pthread_cond_wait(pthread_cond_t *c, pthread_mutex_t *m) {
    using namespace cocls_verif;
    static int (*fn)(pthread_cond_t *, pthread_mutex_t *) = nullptr;   /* no guarded static: __cxa_guard may itself take a pthread mutex */
    if (!fn) fn = shim::real<decltype(fn)>("pthread_cond_wait");
    vsched *s = vsched::current();
    auto *me = vsched::self();
    if (!s || !me) return fn(c, m);
    s->v_cond_wait(me, c, m, -1);
    return 0;
}

int pthread_cond_timedwait(pthread_cond_t *c, pthread_mutex_t *m, const struct timespec *ts) {
    using namespace cocls_verif;
    static int (*fn)(pthread_cond_t *, pthread_mutex_t *, const struct timespec *) = nullptr;   /* no guarded static: __cxa_guard may itself take a pthread mutex */
    if (!fn) fn = shim::real<decltype(fn)>("pthread_cond_timedwait");
    vsched *s = vsched::current();
    auto *me = vsched::self();
    if (!s || !me) return fn(c, m, ts);
    return s->v_cond_wait(me, c, m, shim::to_ns(ts)) ? 0 : ETIMEDOUT;
}

int pthread_cond_clockwait(pthread_cond_t *c, pthread_mutex_t *m, clockid_t clk, const struct timespec *ts) {
    using namespace cocls_verif;
    static int (*fn)(pthread_cond_t *, pthread_mutex_t *, clockid_t, const struct timespec *) = nullptr;   /* no guarded static: __cxa_guard may itself take a pthread mutex */
    if (!fn) fn = shim::real<decltype(fn)>("pthread_cond_clockwait");
    vsched *s = vsched::current();
    auto *me = vsched::self();
    if (!s || !me) return fn(c, m, clk, ts);
    return s->v_cond_wait(me, c, m, shim::to_ns(ts)) ? 0 : ETIMEDOUT;
}

int pthread_cond_signal(pthread_cond_t *c) {
    using namespace cocls_verif;
    static int (*fn)(pthread_cond_t *) = nullptr;   /* no guarded static: __cxa_guard may itself take a pthread mutex */
    if (!fn) fn = shim::real<decltype(fn)>("pthread_cond_signal");
    vsched *s = vsched::current();
    auto *me = vsched::self();
    if (!s) return fn(c);
    if (!me) { s->v_cond_notify(nullptr, c, false); return fn(c); }
    s->v_cond_notify(me, c, false);
    return 0;
}

int pthread_cond_broadcast(pthread_cond_t *c) {
    using namespace cocls_verif;
    static int (*fn)(pthread_cond_t *) = nullptr;   /* no guarded static: __cxa_guard may itself take a pthread mutex */
    if (!fn) fn = shim::real<decltype(fn)>("pthread_cond_broadcast");
    vsched *s = vsched::current();
    auto *me = vsched::self();
    if (!s) return fn(c);
    if (!me) { s->v_cond_notify(nullptr, c, true); return fn(c); }
    s->v_cond_notify(me, c, true);
    return 0;
}

int pthread_create(pthread_t *th, const pthread_attr_t *attr, void *(*start)(void *), void *arg) {
    using namespace cocls_verif;
    static int (*fn)(pthread_t *, const pthread_attr_t *, void *(*)(void *), void *) = nullptr;   /* no guarded static: __cxa_guard may itself take a pthread mutex */
    if (!fn) fn = shim::real<decltype(fn)>("pthread_create");
    vsched *s = vsched::current();
    if (!s || !s->adopt_threads) return fn(th, attr, start, arg);
    // a thread created by library code while the scheduler is installed becomes a managed thread
    vsched::thread_ctl *tc = s->adopt_begin(start, arg);
    internal_allocs++;
    auto *pack = new shim::start_pack{s, tc};
    internal_allocs--;
    int r = fn(th, attr, &shim::trampoline, pack);
    if (r != 0) { fprintf(stderr, "pthread_shim: pthread_create failed\n"); abort(); }
    tc->pth = *th;
    s->adopt_wait_started(tc);
    return 0;
}

int pthread_join(pthread_t th, void **ret) {
    using namespace cocls_verif;
    static int (*fn)(pthread_t, void **) = nullptr;   /* no guarded static: __cxa_guard may itself take a pthread mutex */
    if (!fn) fn = shim::real<decltype(fn)>("pthread_join");
    vsched *s = vsched::current();
    auto *me = vsched::self();
    if (s && me) {
        if (auto *target = s->find_pthread(th)) s->v_join_wait(me, target);
    }
    return fn(th, ret);
}

int clock_gettime(clockid_t clk, struct timespec *ts) {
    using namespace cocls_verif;
    static int (*fn)(clockid_t, struct timespec *) = nullptr;   /* no guarded static: __cxa_guard may itself take a pthread mutex */
    if (!fn) fn = shim::real<decltype(fn)>("clock_gettime");
    vsched *s = vsched::current();
    if (!s || !s->virtual_clock || clk != CLOCK_REALTIME) return fn(clk, ts);
    // reading the clock can be made a scheduling point of its own (a thread that reads the clock and then
    // decides to wait can be overtaken between the two)
    if (s->yield_on_clock && vsched::self()) vsched::mark("clock");
    ts->tv_sec = s->vnow_ns / 1000000000LL;
    ts->tv_nsec = s->vnow_ns % 1000000000LL;
    return 0;
}

}  // extern "C"
